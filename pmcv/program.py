"""E1 -- program model of /repo/pyModelChecking built from source text only.

Nothing from the repository is imported.  Every module is parsed with `ast`;
the module namespaces (imports, star imports, `sys.modules[...]` idioms), the
class table (C3 linearisation) and MRO attribute lookup are reconstructed by
this module.
"""
import ast
import os
import hashlib


class AnalysisError(Exception):
    """The analysis itself cannot run (anchor vanished, parse failure...)."""


class Inconclusive(Exception):
    """A construct lies outside the fragment a rule understands."""

    def __init__(self, rule, construct, where=''):
        super().__init__('%s: %s %s' % (rule, construct, where))
        self.rule = rule
        self.construct = construct
        self.where = where


PKG = 'pyModelChecking'


# ---------------------------------------------------------------------------
# bindings
# ---------------------------------------------------------------------------

class ModRef(object):
    kind = 'module'

    def __init__(self, name):
        self.name = name

    def __repr__(self):
        return '<module %s>' % self.name

    def __eq__(self, o):
        return isinstance(o, ModRef) and o.name == self.name

    def __hash__(self):
        return hash(('mod', self.name))


class ClassInfo(object):
    kind = 'class'

    def __init__(self, module, node, qual=None):
        self.module = module          # Module
        self.node = node
        self.name = node.name
        self.qn = '%s.%s' % (module.name, qual or node.name)
        self.bases = None             # list of ClassInfo | ExtClass
        self.mro = None
        self.attrs = {}               # name -> ast node (FunctionDef | Assign value)
        for st in node.body:
            if isinstance(st, (ast.FunctionDef,)):
                self.attrs[st.name] = st
            elif isinstance(st, ast.Assign):
                for t in st.targets:
                    if isinstance(t, ast.Name):
                        self.attrs[t.id] = st.value
        # `name = function` in a class body, the function being defined at
        # module level or earlier in the body: the method is that function
        # (e.g. one __init__ shared by two classes)
        defs = {}
        for st in module.tree.body if hasattr(module, 'tree') else []:
            if isinstance(st, ast.FunctionDef):
                defs[st.name] = st
        for k, v in list(self.attrs.items()):
            if isinstance(v, ast.Name):
                tgt = self.attrs.get(v.id) if isinstance(
                    self.attrs.get(v.id), ast.FunctionDef) else defs.get(v.id)
                if isinstance(tgt, ast.FunctionDef):
                    self.attrs[k] = tgt

    def __repr__(self):
        return '<class %s>' % self.qn

    def short(self):
        return self.qn.replace(PKG + '.', '')

    def is_subclass_of(self, other):
        return other in self.mro

    def lookup(self, attr):
        """first definition of `attr` along the MRO -> (owner, node) or None"""
        for c in self.mro:
            if isinstance(c, ClassInfo) and attr in c.attrs:
                return c, c.attrs[attr]
        return None


class ExtClass(object):
    """a class that lives outside the repository (object, set, Exception,
    lark.Transformer...)"""
    kind = 'extclass'
    _cache = {}

    def __new__(cls, name):
        if name not in cls._cache:
            o = super().__new__(cls)
            o.name = name
            o.qn = 'ext:' + name
            cls._cache[name] = o
        return cls._cache[name]

    @property
    def mro(self):
        if self.name == 'object':
            return [self]
        return [self, ExtClass('object')]

    def short(self):
        return self.name

    def is_subclass_of(self, other):
        return other in self.mro

    def lookup(self, attr):
        return None

    def __repr__(self):
        return '<ext %s>' % self.name


class FuncInfo(object):
    kind = 'func'

    def __init__(self, module, node, owner=None, qual=None):
        self.module = module
        self.node = node
        self.owner = owner            # ClassInfo for methods
        self.name = node.name if hasattr(node, 'name') else '<lambda>'
        if qual is None:
            qual = (owner.name + '.' if owner else '') + self.name
        self.qual = qual
        self.qn = '%s.%s' % (module.name, qual)

    def __repr__(self):
        return '<func %s>' % self.qn

    def short(self):
        return self.qn.replace(PKG + '.', '')

    def where(self):
        return '%s:%d' % (self.module.relpath, self.node.lineno)


class ValueBinding(object):
    """module level `NAME = <expr>` that is not one of the recognised idioms"""
    kind = 'value'

    def __init__(self, module, node):
        self.module = module
        self.node = node

    def __repr__(self):
        return '<value %s@%s>' % (ast.dump(self.node)[:40], self.module.name)


class ExtRef(object):
    kind = 'ext'

    def __init__(self, name):
        self.name = name

    def __repr__(self):
        return '<ext %s>' % self.name

    def __eq__(self, o):
        return isinstance(o, ExtRef) and o.name == self.name

    def __hash__(self):
        return hash(('ext', self.name))


class _Normalise(ast.NodeTransformer):
    """annotations carry no behaviour: `x: T = v` is read as `x = v`, a bare
    `x: T` as nothing, parameter / return annotations are dropped -- every
    analysis sees the same tree with or without type hints"""

    def visit_AnnAssign(self, node):
        self.generic_visit(node)
        if node.value is None:
            return ast.copy_location(ast.Pass(), node)
        return ast.copy_location(
            ast.Assign(targets=[node.target], value=node.value), node)

    def visit_arg(self, node):
        node.annotation = None
        return node

    def visit_FunctionDef(self, node):
        self.generic_visit(node)
        node.returns = None
        return node


class Module(object):
    def __init__(self, name, path, relpath, is_pkg, src):
        self.name = name
        self.path = path
        self.relpath = relpath
        self.is_pkg = is_pkg
        self.src = src
        self.lines = src.splitlines()
        self.tree = _Normalise().visit(ast.parse(src, filename=path))
        ast.fix_missing_locations(self.tree)
        self.ns = None                # name -> binding (lazily built)
        self._building = False
        self.classes = {}
        self.funcs = {}

    @property
    def package(self):
        return self.name if self.is_pkg else self.name.rsplit('.', 1)[0]

    def __repr__(self):
        return '<Module %s>' % self.name


BUILTIN_CLASSES = ('object', 'set', 'dict', 'list', 'tuple', 'str', 'int',
                   'bool', 'Exception', 'TypeError', 'RuntimeError',
                   'SyntaxError', 'ValueError', 'KeyError', 'StopIteration',
                   'frozenset', 'range')


class Program(object):
    def __init__(self, root):
        self.root = os.path.abspath(root)
        self.pkgdir = os.path.join(self.root, PKG)
        if not os.path.isdir(self.pkgdir):
            raise AnalysisError('package directory %s not found' % self.pkgdir)
        self.modules = {}
        self._load()
        for m in self.modules.values():
            self._collect_defs(m)
        for m in list(self.modules.values()):
            self.namespace(m)
        self.classes = {}
        for m in self.modules.values():
            for c in m.classes.values():
                self.classes[c.qn] = c
        for c in self.classes.values():
            self._bases(c)
        for c in self.classes.values():
            self._mro(c)
        # `name = OtherClass.method` in a class body: the method is that
        # function
        for c in self.classes.values():
            for k, v in list(c.attrs.items()):
                if isinstance(v, ast.Attribute):
                    try:
                        b = self.eval_static(c.module, v.value)
                    except Exception:
                        b = None
                    if isinstance(b, ClassInfo):
                        r = b.lookup(v.attr)
                        if r is not None and isinstance(r[1],
                                                        ast.FunctionDef):
                            c.attrs[k] = r[1]

    # -- loading -----------------------------------------------------------
    def _load(self):
        for dp, dns, fns in os.walk(self.pkgdir):
            dns[:] = sorted(d for d in dns
                            if d not in ('tests', '__pycache__'))
            for fn in sorted(fns):
                if not fn.endswith('.py'):
                    continue
                path = os.path.join(dp, fn)
                rel = os.path.relpath(path, self.root)
                parts = rel[:-3].split(os.sep)
                is_pkg = parts[-1] == '__init__'
                if is_pkg:
                    parts = parts[:-1]
                name = '.'.join(parts)
                with open(path, encoding='utf-8') as fh:
                    src = fh.read()
                try:
                    self.modules[name] = Module(name, path, rel, is_pkg, src)
                except SyntaxError as e:
                    raise AnalysisError('cannot parse %s: %s' % (rel, e))

    def digest(self):
        h = hashlib.sha256()
        for n in sorted(self.modules):
            h.update(n.encode())
            h.update(self.modules[n].src.encode())
        return h.hexdigest()[:16]

    def _collect_defs(self, m):
        for st in m.tree.body:
            if isinstance(st, ast.ClassDef):
                ci = ClassInfo(m, st)
                m.classes[st.name] = ci
            elif isinstance(st, ast.FunctionDef):
                m.funcs[st.name] = FuncInfo(m, st)

    # -- namespaces --------------------------------------------------------
    def _resolve_from(self, m, level, modname):
        if level == 0:
            return modname
        base = m.package.split('.')
        if level > 1:
            base = base[:len(base) - (level - 1)]
        if modname:
            # `from .__init__ import x` names the package itself
            if modname == '__init__':
                return '.'.join(base)
            base = base + modname.split('.')
        return '.'.join(base)

    def namespace(self, m):
        if m.ns is not None:
            return m.ns
        if m._building:
            # import cycle: return what is there so far (python semantics)
            return m._partial
        m._building = True
        ns = {}
        m._partial = ns
        ns['__name__'] = ('const', m.name)
        self._exec_body(m, m.tree.body, ns)
        m.ns = ns
        m._building = False
        return ns

    def _exec_body(self, m, body, ns):
        for st in body:
            if isinstance(st, ast.Import):
                for a in st.names:
                    if a.asname:
                        ns[a.asname] = self._modref(a.name)
                    else:
                        top = a.name.split('.')[0]
                        ns[top] = self._modref(top)
                        if a.name in self.modules:
                            self.namespace(self.modules[a.name])
            elif isinstance(st, ast.ImportFrom):
                target = self._resolve_from(m, st.level, st.module)
                if target in self.modules:
                    tm = self.modules[target]
                    tns = self.namespace(tm)
                    for a in st.names:
                        if a.name == '*':
                            for k, v in list(tns.items()):
                                if not k.startswith('_'):
                                    ns[k] = v
                        else:
                            if a.name in tns:
                                ns[a.asname or a.name] = tns[a.name]
                            elif target + '.' + a.name in self.modules:
                                ns[a.asname or a.name] = ModRef(
                                    target + '.' + a.name)
                                self.namespace(
                                    self.modules[target + '.' + a.name])
                            else:
                                ns[a.asname or a.name] = ExtRef(
                                    '%s.%s' % (target, a.name))
                else:
                    for a in st.names:
                        if a.name != '*':
                            ns[a.asname or a.name] = ExtRef(
                                '%s.%s' % (target, a.name))
            elif isinstance(st, ast.ClassDef):
                ns[st.name] = m.classes[st.name]
            elif isinstance(st, ast.FunctionDef):
                ns[st.name] = m.funcs[st.name]
            elif isinstance(st, ast.Assign):
                v = self._static_value(m, st.value, ns)
                for t in st.targets:
                    if isinstance(t, ast.Name):
                        ns[t.id] = v if v is not None else ValueBinding(
                            m, st.value)
            elif isinstance(st, (ast.If, ast.Try)):
                # conservative: both arms contribute names
                for fld in ('body', 'orelse', 'finalbody'):
                    self._exec_body(m, getattr(st, fld, []) or [], ns)
                for h in getattr(st, 'handlers', []) or []:
                    self._exec_body(m, h.body, ns)

    def _modref(self, name):
        if name in self.modules:
            return ModRef(name)
        return ExtRef(name)

    def _static_value(self, m, node, ns):
        """recognise `sys.modules['x']`, `sys.modules[__name__]`, aliases"""
        if isinstance(node, ast.Subscript):
            v = node.value
            if (isinstance(v, ast.Attribute) and v.attr == 'modules' and
                    isinstance(v.value, ast.Name) and v.value.id == 'sys'):
                k = node.slice
                if isinstance(k, ast.Constant) and isinstance(k.value, str):
                    return self._modref(k.value)
                if isinstance(k, ast.Name) and k.id == '__name__':
                    return ModRef(m.name)
        if isinstance(node, ast.Name) and node.id in ns:
            b = ns[node.id]
            if isinstance(b, (ModRef, ClassInfo, FuncInfo, ExtRef)):
                return b
        if isinstance(node, ast.Attribute):
            b = self._static_value(m, node.value, ns)
            if isinstance(b, ModRef):
                r = self.module_attr(b.name, node.attr)
                if isinstance(r, (ModRef, ClassInfo, FuncInfo, ExtRef)):
                    return r
        return None

    def module_attr(self, modname, attr):
        if modname not in self.modules:
            return ExtRef(modname + '.' + attr)
        m = self.modules[modname]
        ns = self.namespace(m)
        if attr in ns:
            return ns[attr]
        if modname + '.' + attr in self.modules:
            return ModRef(modname + '.' + attr)
        return None

    # -- classes -----------------------------------------------------------
    def eval_static(self, m, node):
        """evaluate a Name / dotted Attribute at module level"""
        if isinstance(node, ast.Name):
            ns = self.namespace(m)
            if node.id in ns:
                return ns[node.id]
            if node.id in BUILTIN_CLASSES:
                return ExtClass(node.id)
            return None
        if isinstance(node, ast.Attribute):
            b = self.eval_static(m, node.value)
            if isinstance(b, ModRef):
                return self.module_attr(b.name, node.attr)
            if isinstance(b, ExtRef):
                return ExtRef(b.name + '.' + node.attr)
            return None
        return None

    def _bases(self, c):
        bs = []
        for b in c.node.bases:
            r = self.eval_static(c.module, b)
            if isinstance(r, ClassInfo):
                bs.append(r)
            elif isinstance(r, ExtClass):
                bs.append(r)
            elif isinstance(r, ExtRef):
                bs.append(ExtClass(r.name.split('.')[-1]))
            else:
                raise AnalysisError('cannot resolve base %s of %s' %
                                    (ast.dump(b), c.qn))
        if not bs:
            bs = [ExtClass('object')]
        c.bases = bs

    def _mro(self, c):
        if isinstance(c, ExtClass):
            return c.mro
        if c.mro is not None:
            return c.mro
        seqs = [list(self._mro(b)) for b in c.bases] + [list(c.bases)]
        res = [c]
        while True:
            seqs = [s for s in seqs if s]
            if not seqs:
                break
            for s in seqs:
                cand = s[0]
                if not any(cand in t[1:] for t in seqs):
                    break
            else:
                raise AnalysisError('inconsistent MRO for %s' % c.qn)
            res.append(cand)
            for s in seqs:
                if s and s[0] is cand:
                    del s[0]
        c.mro = res
        return res

    # -- convenience -------------------------------------------------------
    def cls(self, qn):
        """`pyModelChecking.CTL.language.A` or short `CTL.language.A`"""
        if not qn.startswith(PKG):
            qn = PKG + '.' + qn
        if qn not in self.classes:
            raise AnalysisError('anchor class %s not found' % qn)
        return self.classes[qn]

    def func(self, qn):
        if not qn.startswith(PKG):
            qn = PKG + '.' + qn
        mod, _, name = qn.rpartition('.')
        if mod in self.modules and name in self.modules[mod].funcs:
            return self.modules[mod].funcs[name]
        # method?
        mod2, _, cname = mod.rpartition('.')
        if mod2 in self.modules and cname in self.modules[mod2].classes:
            ci = self.modules[mod2].classes[cname]
            if name in ci.attrs and isinstance(ci.attrs[name],
                                               ast.FunctionDef):
                return self.method(ci, name, own=True)
        raise AnalysisError('anchor function %s not found' % qn)

    def module(self, name):
        if not name.startswith(PKG):
            name = PKG + '.' + name
        if name not in self.modules:
            raise AnalysisError('anchor module %s not found' % name)
        return self.modules[name]

    _method_cache = None

    def method(self, ci, name, own=False):
        """resolved method `name` for receiver class `ci` -> FuncInfo | None"""
        if self._method_cache is None:
            self._method_cache = {}
        r = ci.lookup(name) if not own else (
            (ci, ci.attrs[name]) if name in ci.attrs else None)
        if r is None:
            return None
        owner, node = r
        if not isinstance(node, ast.FunctionDef):
            return None
        key = (owner.qn, name)
        if key not in self._method_cache:
            self._method_cache[key] = FuncInfo(owner.module, node, owner)
        return self._method_cache[key]

    def class_attr(self, ci, name):
        """MRO lookup of a non-method class attribute -> (owner, ast node)"""
        return ci.lookup(name)

    def alphabet(self, modname):
        """static image of get_alphabet(modname): name -> ClassInfo"""
        m = self.module(modname)
        asym = self.cls('language.AlphabeticSymbol')
        out = {}
        for k, v in self.namespace(m).items():
            if isinstance(v, ClassInfo) and v is not asym and \
                    v.is_subclass_of(asym):
                out[k] = v
        return out

    def all_functions(self):
        """every def in the package (module level, methods, nested)"""
        out = []
        for m in self.modules.values():
            for f in m.funcs.values():
                out.append(f)
            for c in m.classes.values():
                for n, node in c.attrs.items():
                    if isinstance(node, ast.FunctionDef):
                        out.append(self.method(c, n, own=True))
        return out

    def src_line(self, m, lineno):
        try:
            return m.lines[lineno - 1].strip()
        except Exception:
            return ''


def norm_text(node):
    """normalised statement text (no line numbers, no formatting)"""
    try:
        return ast.unparse(node)
    except Exception:
        return ast.dump(node)
