"""Abstract values, heap objects and paths of the path-enumerating abstract
interpreter (E3)."""


class V(object):
    __slots__ = ()


class Const(V):
    __slots__ = ('v',)

    def __init__(self, v):
        self.v = v

    def __eq__(self, o):
        return isinstance(o, Const) and type(o.v) is type(self.v) and \
            o.v == self.v

    def __hash__(self):
        return hash(('K', type(self.v).__name__, self.v))

    def __repr__(self):
        return 'K(%r)' % (self.v,)


class Sym(V):
    """opaque symbol.  typ: None | ('inst', ClassInfo) | ('b', name)"""
    __slots__ = ('name', 'typ', 'meta')

    def __init__(self, name, typ=None, meta=None):
        self.name = name
        self.typ = typ
        self.meta = meta

    def __eq__(self, o):
        return isinstance(o, Sym) and o.name == self.name

    def __hash__(self):
        return hash(('S', self.name))

    def __repr__(self):
        return '$' + self.name


class CRef(V):
    __slots__ = ('ci',)

    def __init__(self, ci):
        self.ci = ci

    def __eq__(self, o):
        return isinstance(o, CRef) and o.ci is self.ci

    def __hash__(self):
        return hash(('C', self.ci.qn))

    def __repr__(self):
        return 'C<%s>' % self.ci.short()


class FRef(V):
    """function value; `closure` = frame oid for nested defs / lambdas"""
    __slots__ = ('fi', 'closure', 'node', 'raw')

    def __init__(self, fi, closure=None, node=None, raw=False):
        self.fi = fi
        self.closure = closure
        self.node = node if node is not None else fi.node
        self.raw = raw      # the function under its decorators

    def __eq__(self, o):
        return isinstance(o, FRef) and o.node is self.node and \
            o.closure == self.closure

    def __hash__(self):
        return hash(('F', id(self.node), self.closure))

    def __repr__(self):
        return 'F<%s>' % self.fi.short()


class MRef(V):
    __slots__ = ('name',)

    def __init__(self, name):
        self.name = name

    def __eq__(self, o):
        return isinstance(o, MRef) and o.name == self.name

    def __hash__(self):
        return hash(('M', self.name))

    def __repr__(self):
        return 'M<%s>' % self.name


class ERef(V):
    """something external to the package (sys, ast, lark...)"""
    __slots__ = ('name',)

    def __init__(self, name):
        self.name = name

    def __eq__(self, o):
        return isinstance(o, ERef) and o.name == self.name

    def __hash__(self):
        return hash(('E', self.name))

    def __repr__(self):
        return 'E<%s>' % self.name


class BRef(V):
    """python builtin function / type"""
    __slots__ = ('name',)

    def __init__(self, name):
        self.name = name

    def __eq__(self, o):
        return isinstance(o, BRef) and o.name == self.name

    def __hash__(self):
        return hash(('B', self.name))

    def __repr__(self):
        return 'B<%s>' % self.name


class Bound(V):
    __slots__ = ('recv', 'f')

    def __init__(self, recv, f):
        self.recv = recv
        self.f = f

    def __eq__(self, o):
        return isinstance(o, Bound) and o.recv == self.recv and o.f == self.f

    def __hash__(self):
        return hash(('BM', self.recv, self.f))

    def __repr__(self):
        return '%r.%s' % (self.recv, self.f.fi.name)


class BoundB(V):
    """method `name` of a builtin / unknown receiver"""
    __slots__ = ('recv', 'name')

    def __init__(self, recv, name):
        self.recv = recv
        self.name = name

    def __eq__(self, o):
        return isinstance(o, BoundB) and o.recv == self.recv and \
            o.name == self.name

    def __hash__(self):
        return hash(('BB', self.recv, self.name))

    def __repr__(self):
        return '%r.%s' % (self.recv, self.name)


class Obj(V):
    __slots__ = ('oid',)

    def __init__(self, oid):
        self.oid = oid

    def __eq__(self, o):
        return isinstance(o, Obj) and o.oid == self.oid

    def __hash__(self):
        return hash(('O', self.oid))

    def __repr__(self):
        return '#%d' % self.oid


class Tup(V):
    __slots__ = ('items',)

    def __init__(self, items):
        self.items = tuple(items)

    def __eq__(self, o):
        return isinstance(o, Tup) and o.items == self.items

    def __hash__(self):
        return hash(('T', self.items))

    def __repr__(self):
        return '(%s)' % ', '.join(map(repr, self.items))


class App(V):
    """symbolic application  op(args)"""
    __slots__ = ('op', 'args')

    def __init__(self, op, *args):
        self.op = op
        self.args = tuple(args)

    def __eq__(self, o):
        return isinstance(o, App) and o.op == self.op and o.args == self.args

    def __hash__(self):
        return hash(('A', self.op, self.args))

    def __repr__(self):
        return '%s(%s)' % (self.op, ', '.join(map(repr, self.args)))


class New(V):
    """summarised construction  ci(*args)  (formulas, exceptions, graphs)"""
    __slots__ = ('ci', 'args', 'kw')

    def __init__(self, ci, args, kw=()):
        self.ci = ci
        self.args = tuple(args)
        self.kw = tuple(kw)

    def __eq__(self, o):
        return isinstance(o, New) and o.ci is self.ci and \
            o.args == self.args and o.kw == self.kw

    def __hash__(self):
        return hash(('N', self.ci.qn, self.args, self.kw))

    def __repr__(self):
        a = list(map(repr, self.args)) + ['%s=%r' % kv for kv in self.kw]
        return '%s(%s)' % (self.ci.short().split('.')[-1] if
                           self.ci.short().count('.') == 0
                           else self.ci.short(), ', '.join(a))


class Coll(V):
    """immutable snapshot of a container"""
    __slots__ = ('oid', 'kind', 'parts', 'havoc')

    def __init__(self, oid, kind, parts, havoc=False):
        self.oid = oid
        self.kind = kind
        self.parts = tuple(parts)
        self.havoc = havoc

    def __eq__(self, o):
        return isinstance(o, Coll) and o.kind == self.kind and \
            o.parts == self.parts and o.oid == self.oid

    def __hash__(self):
        return hash(('Co', self.kind, self.parts, self.oid))

    def __repr__(self):
        return '%s#%s{%s%s}' % (self.kind, self.oid,
                                ', '.join(map(repr, self.parts)),
                                ' ?' if self.havoc else '')


class Part(object):
    """one contribution to a container.
    kind 'elem': the element `val` ; kind 'spread': every element of `val`;
    for dicts `key` is set.  gens: ((var Sym, iterable V), ...);
    conds: ((V, polarity), ...)"""
    __slots__ = ('kind', 'val', 'key', 'gens', 'conds', 'seq')
    _counter = [0]

    def __init__(self, kind, val, key=None, gens=(), conds=()):
        self.kind = kind
        self.val = val
        self.key = key
        self.gens = tuple(gens)
        self.conds = tuple(conds)
        Part._counter[0] += 1
        self.seq = Part._counter[0]

    def simple(self):
        return self.kind == 'elem' and not self.gens and not self.conds

    def _k(self):
        return (self.kind, self.val, self.key, self.gens, self.conds)

    def __eq__(self, o):
        return isinstance(o, Part) and o._k() == self._k()

    def __hash__(self):
        return hash(self._k())

    def __repr__(self):
        s = ('*' if self.kind == 'spread' else '') + repr(self.val)
        if self.key is not None:
            s = '%r: %s' % (self.key, s)
        for v, it in self.gens:
            s += ' for %r in %r' % (v, it)
        for c, pol in self.conds:
            s += ' if %s%r' % ('' if pol else 'not ', c)
        return s


class FoldInfo(object):
    """a loop whose body reads containers it extends: its effect is the
    sequential fold of `steps` over the generator bindings"""

    def __init__(self, lid):
        self.lid = lid
        self.steps = []        # (seq, oid, Part)
        self.entry = {}        # oid -> (kind, tuple(parts before the loop))

    def __bool__(self):
        return True

    def __repr__(self):
        return 'fold#%s' % self.lid


class Raise(object):
    """signal: an exception propagates"""
    __slots__ = ('exc', 'node', 'implicit')

    def __init__(self, exc, node=None, implicit=False):
        self.exc = exc
        self.node = node
        self.implicit = implicit

    def __repr__(self):
        return 'Raise(%r)' % (self.exc,)


# ---------------------------------------------------------------------------

class HObj(object):
    """heap object. kind in frame|list|set|dict|inst|iter"""
    __slots__ = ('kind', 'vars', 'parts', 'ci', 'fields', 'havoc',
                 'pc_len', 'loops_len', 'site', 'parent', 'fnode', 'module',
                 'self_cls', 'reorder', 'loops_at')

    def __init__(self, kind):
        self.kind = kind
        self.vars = None
        self.parts = None
        self.ci = None
        self.fields = None
        self.havoc = False
        self.pc_len = 0
        self.loops_len = 0
        self.site = None
        self.parent = None
        self.fnode = None
        self.module = None
        self.self_cls = None
        self.reorder = ()       # 'sorted' / 'sort' / 'reverse' applied
        self.loops_at = None    # the loops active when it was allocated

    def copy(self):
        o = HObj(self.kind)
        o.vars = dict(self.vars) if self.vars is not None else None
        o.parts = list(self.parts) if self.parts is not None else None
        o.ci = self.ci
        o.fields = dict(self.fields) if self.fields is not None else None
        o.havoc = self.havoc
        o.pc_len = self.pc_len
        o.loops_len = self.loops_len
        o.site = self.site
        o.parent = self.parent
        o.fnode = self.fnode
        o.module = self.module
        o.self_cls = self.self_cls
        o.reorder = self.reorder
        o.loops_at = self.loops_at
        return o

    def concrete(self):
        return (not self.havoc) and all(p.simple() for p in self.parts)


class Event(object):
    __slots__ = ('kind', 'target', 'name', 'args', 'pc', 'loops', 'node',
                 'stack', 'tries')

    def __init__(self, kind, target, name, args, pc, loops, node, stack):
        self.kind = kind      # mutate | setattr | setitem | mcall | alloc |
        #                       call | delete
        self.target = target
        self.name = name
        self.args = args
        self.pc = pc
        self.loops = loops
        self.node = node
        self.stack = stack
        self.tries = ()

    def __repr__(self):
        return 'Ev(%s %r .%s %r)' % (self.kind, self.target, self.name,
                                     self.args)


class Path(object):
    def __init__(self, shared):
        self.heap = {}
        self.pc = []
        self.log = []
        self.loops = ()
        self.shared = shared      # dict with 'n' counter
        self.notes = []

    def fork(self):
        p = Path(self.shared)
        p.heap = {k: o.copy() for k, o in self.heap.items()}
        p.pc = list(self.pc)
        p.log = list(self.log)
        p.loops = self.loops
        p.notes = list(self.notes)
        return p

    def new_id(self):
        self.shared['n'] += 1
        return self.shared['n']

    def alloc(self, kind, site=None):
        o = HObj(kind)
        o.pc_len = len(self.pc)
        o.loops_len = len(self.loops)
        o.loops_at = self.loops
        o.site = site
        if kind in ('list', 'set', 'dict'):
            o.parts = []
        if kind == 'frame':
            o.vars = {}
        if kind == 'inst':
            o.fields = {}
        oid = self.new_id()
        self.heap[oid] = o
        return Obj(oid)

    def fresh(self, hint, typ=None, meta=None):
        return Sym('%s%d' % (hint, self.new_id()), typ, meta)


def walk(v):
    """all sub-values of a value (pre-order)"""
    yield v
    if isinstance(v, App):
        for a in v.args:
            if isinstance(v, V) and isinstance(a, V):
                for x in walk(a):
                    yield x
            elif isinstance(a, tuple):
                for b in a:
                    if isinstance(b, V):
                        for x in walk(b):
                            yield x
    elif isinstance(v, New):
        for a in v.args:
            for x in walk(a):
                yield x
        for k, a in v.kw:
            for x in walk(a):
                yield x
    elif isinstance(v, Tup):
        for a in v.items:
            for x in walk(a):
                yield x
    elif isinstance(v, (Bound, BoundB)):
        for x in walk(v.recv):
            yield x
    elif isinstance(v, Coll):
        for p in v.parts:
            for x in walk(p.val):
                yield x
            if p.key is not None:
                for x in walk(p.key):
                    yield x
            for g, it in p.gens:
                for x in walk(it):
                    yield x
            for c, _ in p.conds:
                for x in walk(c):
                    yield x


def subst_value(v, mapping):
    """replace symbols (keys of `mapping`) inside a value term"""
    if isinstance(v, Sym):
        return mapping.get(v, v)
    if isinstance(v, App):
        return App(v.op, *[subst_value(x, mapping) if isinstance(x, V) else x
                           for x in v.args])
    if isinstance(v, Tup):
        return Tup([subst_value(x, mapping) for x in v.items])
    if isinstance(v, Coll):
        return Coll(v.oid, v.kind, [Part(
            q.kind, subst_value(q.val, mapping),
            key=None if q.key is None else subst_value(q.key, mapping),
            gens=[(g, subst_value(it, mapping)) for (g, it) in q.gens],
            conds=[(subst_value(c, mapping), pol) for (c, pol) in q.conds])
            for q in v.parts], v.havoc)
    return v
