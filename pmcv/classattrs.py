"""R-CLS-1 -- a mutable container in a class body is ONE object shared by the
class, its subclasses and all their instances.  A method that fills it
through `self` with values that depend on the arguments of that instance's
constructor, under keys that do not, makes the instances overwrite each
other's entries: every live instance then works with the data of the one
constructed last.

Only that shape is reported (positive witness); a registry written through
the class (`Class.table[k] = v`, `cls.table`), a table whose keys carry the
instance-specific data, and an attribute that the constructor rebinds on the
instance (`self.table = {}`) are left alone."""
import ast

from .defaults import MUTATORS, _mutable_default


def _names(e):
    return {n.id for n in ast.walk(e) if isinstance(n, ast.Name)}


def shared_writes(cnode):
    """[(attribute, line, how)] for class node `cnode`"""
    shared = {}
    for st in cnode.body:
        if isinstance(st, ast.Assign) and _mutable_default(st.value):
            for t in st.targets:
                if isinstance(t, ast.Name):
                    shared[t.id] = st
    if not shared:
        return []
    methods = [m for m in cnode.body if isinstance(m, ast.FunctionDef)
               and m.args.args]
    # rebound on the instance anywhere in the class: per-instance after all
    for m in methods:
        me = m.args.args[0].arg
        for n in ast.walk(m):
            if isinstance(n, ast.Attribute) and isinstance(n.ctx, ast.Store) \
                    and isinstance(n.value, ast.Name) and n.value.id == me:
                shared.pop(n.attr, None)
    out = []
    for m in methods:
        if m.name != '__init__':
            continue
        if any(isinstance(d, ast.Name) and d.id in ('classmethod',
                                                    'staticmethod')
               for d in m.decorator_list):
            continue
        me = m.args.args[0].arg
        params = {a.arg for a in m.args.args[1:] + m.args.kwonlyargs}
        if m.args.vararg:
            params.add(m.args.vararg.arg)
        if m.args.kwarg:
            params.add(m.args.kwarg.arg)
        # locals derived from parameters (one step of plain assignments)
        derived = set(params)
        for _ in range(3):
            for n in ast.walk(m):
                if isinstance(n, ast.Assign) and _names(n.value) & derived:
                    for t in n.targets:
                        if isinstance(t, ast.Name):
                            derived.add(t.id)

        def is_shared(e):
            return isinstance(e, ast.Attribute) and e.attr in shared and \
                isinstance(e.value, ast.Name) and e.value.id == me
        for n in ast.walk(m):
            if isinstance(n, ast.Assign):
                for t in n.targets:
                    if isinstance(t, ast.Subscript) and is_shared(t.value):
                        if _names(n.value) & derived and \
                                not (_names(t.slice) & derived):
                            out.append((t.value.attr, n.lineno,
                                        'self.%s[%s] = %s' % (
                                            t.value.attr,
                                            ast.unparse(t.slice),
                                            ast.unparse(n.value))))
            elif isinstance(n, ast.Call) and \
                    isinstance(n.func, ast.Attribute) and \
                    is_shared(n.func.value) and n.func.attr in (
                        'append', 'add', 'extend', 'update', 'insert'):
                if any(_names(a) & derived for a in n.args):
                    out.append((n.func.value.attr, n.lineno,
                                'self.%s.%s(%s)' % (
                                    n.func.value.attr, n.func.attr,
                                    ', '.join(ast.unparse(a)
                                              for a in n.args))))
    return out


_POS = ("class T(B):\n    ops = {}\n    def __init__(self, lang):\n"
        "        super().__init__(lang)\n"
        "        for name in ('A', 'E'):\n"
        "            self.ops[name] = getattr(lang, name)\n")
_NEG = ("class T(B):\n    ops = {}\n    seen = {}\n    reg = {}\n"
        "    def __init__(self, lang):\n"
        "        self.ops = {}\n"
        "        self.ops['A'] = lang.A\n"
        "        self.seen[lang] = lang.A\n"
        "        T.reg['A'] = lang.A\n")


def rule(prog, prop, files=None):
    from .report import Finding, RuleResult, floor
    from .program import Inconclusive
    r = RuleResult('R-CLS-1', 'no constructor fills a container of the class '
                   'body (shared by all instances) through self with values '
                   'that depend on its own arguments under keys that do not')
    if len(shared_writes(ast.parse(_POS).body[0])) != 1 or \
            shared_writes(ast.parse(_NEG).body[0]):
        raise Inconclusive('R-CLS-1', 'matcher self-test failed', '')
    n = 0
    for c in sorted(prog.classes.values(), key=lambda c: c.qn):
        if files is not None and not any(c.module.relpath.endswith(x)
                                         for x in files):
            continue
        n += 1
        for (attr, line, how) in shared_writes(c.node):
            r.fail(Finding(
                prop, 'R-CLS-1', '%s:%d' % (c.module.relpath, line),
                c.short() + '.__init__', 'shared-class-attr:%s' % attr,
                '%s.%s is created once in the class body and shared by every '
                'instance (and subclass); __init__ stores data of its own '
                'arguments in it (%s) under a key that does not depend on '
                'them: the instance constructed last decides what every '
                'live instance finds there' % (c.short(), attr, how)),
                witness=attr)
    r.inst(classes_scanned=n)
    if not r.findings:
        r.ok()
    floor('R-CLS-1', 'classes scanned', n, 1)
    r.notes.append('matcher self-test: positive example reported, negative '
                   'example silent')
    return r
