"""structured use-after analysis on one function (no CFG library needed).

`use_after(fnode, stmt, name)`: the first place where the variable `name` is
read (or the object it names is mutated through it) on some control-flow path
that starts right after `stmt` and has not re-assigned `name` yet; None if no
such path exists.  A may-analysis over the statement structure: conditions are
not interpreted, a loop body is entered from its head with the state of the
back edge, an exception handler is entered with the state at the start of the
`try` body.

Used for ownership rules of the form "an object handed out to the caller
(yielded / returned / stored) is not used by the producer afterwards".
"""
import ast


class _Found(Exception):
    def __init__(self, node):
        self.node = node


def _loads(e, name):
    """first Load of `name` in expression/statement e (evaluation order is
    not needed: any Load counts)"""
    if e is None:
        return None
    for n in ast.walk(e):
        if isinstance(n, ast.Name) and n.id == name and \
                isinstance(n.ctx, ast.Load):
            return n
    return None


def _stores(target, name):
    """`name` itself is (re)bound by this target"""
    if isinstance(target, ast.Name):
        return target.id == name
    if isinstance(target, (ast.Tuple, ast.List)):
        return any(_stores(t, name) for t in target.elts)
    if isinstance(target, ast.Starred):
        return _stores(target.value, name)
    return False


def _check(e, name):
    n = _loads(e, name)
    if n is not None:
        raise _Found(n)


def _const_true(test):
    return isinstance(test, ast.Constant) and bool(test.value)


THROUGH, BREAK, CONT = 'through', 'break', 'continue'


def _scan(stmts, name):
    """ways in which a path on which `name` is still live leaves the block"""
    out = {THROUGH}
    for s in stmts:
        if THROUGH not in out:
            break
        out.discard(THROUGH)
        out |= _scan_stmt(s, name)
    return out


def _scan_stmt(s, name):
    if isinstance(s, ast.Assign):
        _check(s.value, name)
        for t in s.targets:
            if not isinstance(t, ast.Name):
                _check(t, name)         # name[i] = .. / name.f = ..
        if any(_stores(t, name) for t in s.targets):
            return set()
        return {THROUGH}
    if isinstance(s, ast.AnnAssign):
        _check(s.value, name)
        if s.value is not None and _stores(s.target, name):
            return set()
        return {THROUGH}
    if isinstance(s, ast.AugAssign):
        _check(s.value, name)
        if isinstance(s.target, ast.Name) and s.target.id == name:
            raise _Found(s.target)
        _check(s.target, name)
        return {THROUGH}
    if isinstance(s, ast.Delete):
        for t in s.targets:
            if isinstance(t, ast.Name) and t.id == name:
                return set()
            _check(t, name)
        return {THROUGH}
    if isinstance(s, (ast.Return, ast.Raise)):
        _check(s, name)
        return set()
    if isinstance(s, ast.Break):
        return {BREAK}
    if isinstance(s, ast.Continue):
        return {CONT}
    if isinstance(s, ast.If):
        _check(s.test, name)
        return _scan(s.body, name) | _scan(s.orelse, name)
    if isinstance(s, ast.While):
        _check(s.test, name)
        b = _scan(s.body, name)
        out = set()
        if BREAK in b:
            out.add(THROUGH)
        if not _const_true(s.test):
            out |= _scan(s.orelse, name)
        return out
    if isinstance(s, (ast.For, ast.AsyncFor)):
        _check(s.iter, name)
        b = set() if _stores(s.target, name) else _scan(s.body, name)
        out = set()
        if BREAK in b:
            out.add(THROUGH)
        out |= _scan(s.orelse, name)
        return out
    if isinstance(s, (ast.With, ast.AsyncWith)):
        for it in s.items:
            _check(it.context_expr, name)
        if any(it.optional_vars is not None and
               _stores(it.optional_vars, name) for it in s.items):
            return set()
        return _scan(s.body, name)
    if isinstance(s, ast.Try) or s.__class__.__name__ == 'TryStar':
        out = set()
        b = _scan(s.body, name)
        if THROUGH in b:
            b.discard(THROUGH)
            b |= _scan(s.orelse, name)
        out |= b
        for h in s.handlers:
            _check(h.type, name)
            if h.name == name:
                continue
            out |= _scan(h.body, name)
        if s.finalbody:
            f = _scan(s.finalbody, name)
            if THROUGH not in f:
                return f
            out |= f - {THROUGH}
        return out
    if isinstance(s, (ast.FunctionDef, ast.AsyncFunctionDef, ast.ClassDef)):
        if s.name == name:
            return set()
        _check(s, name)
        return {THROUGH}
    if isinstance(s, (ast.Import, ast.ImportFrom)):
        for a in s.names:
            if (a.asname or a.name.split('.')[0]) == name:
                return set()
        return {THROUGH}
    if isinstance(s, (ast.Pass, ast.Global, ast.Nonlocal)):
        return {THROUGH}
    # Expr, Assert, Match, ... : any read counts, no kill assumed
    _check(s, name)
    return {THROUGH}


def _blocks_of(s):
    for fld in ('body', 'orelse', 'finalbody'):
        b = getattr(s, fld, None)
        if isinstance(b, list) and b and isinstance(b[0], ast.stmt):
            yield fld, b
    for h in getattr(s, 'handlers', []) or []:
        yield 'handler', h.body
    for c in getattr(s, 'cases', []) or []:
        yield 'case', c.body


def _chain(fnode, stmt):
    """[(container stmt | None, field, block, index)] from the function body
    down to the block that holds `stmt`"""
    def rec(container, fld, block):
        for i, s in enumerate(block):
            if s is stmt:
                return [(container, fld, block, i)]
            if isinstance(s, (ast.FunctionDef, ast.AsyncFunctionDef,
                              ast.ClassDef)):
                continue
            for (f2, b2) in _blocks_of(s):
                r = rec(s, f2, b2)
                if r is not None:
                    return [(container, fld, block, i)] + r
        return None
    return rec(None, 'body', fnode.body)


def use_after(fnode, stmt, name):
    ch = _chain(fnode, stmt)
    if ch is None:
        raise ValueError('statement not in function')
    try:
        level = len(ch) - 1
        container, fld, block, idx = ch[level]
        out = _scan(block[idx + 1:], name)
        while out and container is not None:
            C = container
            cout = set()
            if isinstance(C, (ast.While, ast.For, ast.AsyncFor)) and \
                    fld == 'body':
                leaves = BREAK in out
                if out & {THROUGH, CONT}:
                    # back edge: loop head, body again, normal exit
                    if isinstance(C, ast.While):
                        _check(C.test, name)
                        b2 = _scan(C.body, name)
                        normal = not _const_true(C.test)
                    else:
                        b2 = set() if _stores(C.target, name) \
                            else _scan(C.body, name)
                        normal = True
                    if BREAK in b2:
                        leaves = True
                    if normal:
                        o = _scan(C.orelse, name)
                        if THROUGH in o:
                            leaves = True
                        cout |= o - {THROUGH}
                if leaves:
                    cout.add(THROUGH)
            elif isinstance(C, ast.Try) or C.__class__.__name__ == 'TryStar':
                o = set(out)
                if fld == 'body':
                    if THROUGH in o:
                        o.discard(THROUGH)
                        o |= _scan(C.orelse, name)
                    for h in C.handlers:
                        if h.name != name:
                            o |= _scan(h.body, name)
                if fld != 'finalbody' and C.finalbody:
                    f = _scan(C.finalbody, name)
                    if THROUGH not in f:
                        o = f
                    else:
                        o |= f - {THROUGH}
                cout = o
            else:
                cout = set(out)
            level -= 1
            container, fld, block, idx = ch[level]
            out = cout & {BREAK, CONT}
            if THROUGH in cout:
                out |= _scan(block[idx + 1:], name)
        return None
    except _Found as e:
        return e.node


def simple_aliases(fnode, name):
    """names related to `name` by plain copies `a = b` anywhere in the
    function (flow-insensitive)"""
    cls = {name}
    changed = True
    while changed:
        changed = False
        for n in ast.walk(fnode):
            if isinstance(n, ast.Assign) and isinstance(n.value, ast.Name):
                for t in n.targets:
                    if isinstance(t, ast.Name):
                        if (t.id in cls) != (n.value.id in cls):
                            cls |= {t.id, n.value.id}
                            changed = True
    return cls
