#!/venv/bin/python
"""entry point:  check.py <property> [--tier quick|thorough] [--repo DIR]
                                    [--replay FILE] [--no-evidence]

exit 0  property clause held on everything analysed (KNOWN-FINDING lines only)
exit 1  VIOLATION property=<id> replay=<path>
exit 2  ANALYSIS-ERROR / INCONCLUSIVE (the analysis could not run or met a
        construct outside the fragment it understands) -- never a VIOLATION
"""
import argparse
import importlib
import json
import os
import sys
import time
import traceback

HERE = os.path.dirname(os.path.abspath(__file__))
sys.path.insert(0, HERE)

from pmcv.program import Program, AnalysisError, Inconclusive  # noqa
from pmcv import report  # noqa


def main(argv=None):
    ap = argparse.ArgumentParser()
    ap.add_argument('prop')
    ap.add_argument('--tier', default=os.environ.get('VERIF_TIER', 'quick'))
    ap.add_argument('--repo', default='/repo')
    ap.add_argument('--replay', default=None)
    ap.add_argument('--no-evidence', action='store_true')
    a = ap.parse_args(argv)
    if a.tier not in ('quick', 'thorough'):
        a.tier = 'quick'
    try:
        seed = int(os.environ.get('VERIF_SEED', '0'))
    except ValueError:
        seed = 0
    t0 = time.time()
    prop = a.prop.upper()
    try:
        mod = importlib.import_module('pmcv.rules.%s' % prop.lower())
        prog = Program(a.repo)
        try:
            results, explanation, assumptions, extra = mod.run(prog, a.tier,
                                                               seed)
        except (Inconclusive, AnalysisError) as e:
            # the property's own rules could not even be set up (an anchor
            # outside the interpreted fragment): no verdict from them, but
            # the rules that look at every function still run -- a finding
            # of theirs stands on its own
            kind = 'INCONCLUSIVE' if isinstance(e, Inconclusive) else \
                'ANALYSIS-ERROR'
            results, explanation, assumptions = [], \
                'the rules of the property could not be set up', []
            extra = {'undecided_rules': ['%s %s' % (kind, e)]}
        # rules about every function of the files the property relies on
        from pmcv import common
        cres, cund = common.common_rules(prog, prop)
        results = list(results) + cres
        if cund:
            extra = dict(extra or {})
            extra['undecided_rules'] = list(
                extra.get('undecided_rules') or []) + cund
        write = (not a.no_evidence) and a.replay is None
        live = None
        if a.tier == 'thorough' and a.replay is None and \
                os.environ.get('VERIF_NO_LIVENESS') != '1':
            from pmcv import liveness
            live = liveness.run(prop, a.repo)
            extra = dict(extra or {})
            extra['liveness'] = {
                'what': 'seeded variants of the analysed tree that this '
                        'check must report (static re-analysis of a scratch '
                        'copy with one patch of /verif/seeded applied)',
                'variants': live,
                'reported': sum(1 for v in live.values()
                                if v.startswith('reported')),
                'skipped': sum(1 for v in live.values()
                               if v.startswith('skipped'))}
        rc, ev, new = report.finish(prop, a.tier, seed, results, t0,
                                    explanation, assumptions,
                                    write_evidence=write, extra_cov=extra,
                                    quiet=a.replay is not None)
        if a.replay is not None:
            with open(a.replay) as fh:
                want = json.load(fh)['construct_key']
            allf = [f for r in results for f in r.findings]
            hit = [f for f in allf if f.key == want]
            if hit:
                print('REPLAY: still reported: %r' % hit[0])
                print('VIOLATION property=%s replay=%s' % (prop, a.replay))
                return 1
            print('REPLAY: construct no longer reported')
            return 0
        undecided = (extra or {}).get('undecided_rules') or []
        for u in undecided:
            print('%s property=%s %s' % (u.split(' ', 1)[0], prop,
                                         u.split(' ', 1)[1]))
        if undecided and rc == 0:
            print('%s: %d rule(s) undecided -- no verdict' % (
                prop, len(undecided)))
            return 2
        if live is not None:
            dead = sorted(k for k, v in live.items()
                          if v.startswith('NOT REPORTED'))
            print('LIVENESS %s: %d seeded variant(s) reported, %d skipped, '
                  '%d not reported' % (
                      prop, sum(1 for v in live.values()
                                if v.startswith('reported')),
                      sum(1 for v in live.values()
                          if v.startswith('skipped')), len(dead)))
            if rc == 0 and dead:
                print('ANALYSIS-ERROR property=%s liveness: the check no '
                      'longer reports the seeded variant(s) %s' % (
                          prop, ', '.join(dead)))
                return 2
        return rc
    except Inconclusive as e:
        print('INCONCLUSIVE property=%s %s' % (prop, e))
        return 2
    except AnalysisError as e:
        print('ANALYSIS-ERROR property=%s %s' % (prop, e))
        return 2
    except Exception:
        traceback.print_exc()
        print('ANALYSIS-ERROR property=%s internal error' % prop)
        return 2


if __name__ == '__main__':
    sys.exit(main())
