#!/venv/bin/python
"""setup: nothing to build; verify the interpreter and lark are present"""
import sys
import ast
try:
    import lark
except Exception as e:
    print('setup: lark not importable (%s); grammar rules will use the '
          'built-in EBNF expander' % e)
print('setup ok: python %s' % sys.version.split()[0])
