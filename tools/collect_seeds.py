#!/venv/bin/python
"""copy confirmed seeded changes from /tmp/seed_<ID>/ into /verif/seeded/ and
(re)evaluate every seed against the current checks; writes meta.json per seed
and seeded/INDEX.md"""
import glob, json, os, shutil, subprocess, sys
VERIF = os.path.dirname(os.path.dirname(os.path.abspath(__file__)))
SEEDED = os.path.join(VERIF, 'seeded')
os.makedirs(SEEDED, exist_ok=True)
# import new ones
for d in sorted(glob.glob('/tmp/seed_C*') + glob.glob('/tmp/seed2_C*') +
                glob.glob('/tmp/seed3_C*') + glob.glob('/tmp/seed4_C*') + glob.glob('/tmp/seed5_C*') +
                glob.glob('/tmp/seed6_C*') + glob.glob('/tmp/seed7_C*') + glob.glob('/tmp/seed8_C*')):
    b = os.path.basename(d)
    rnd = b[4] if b[4] in '2345678' else ''
    pid = os.path.basename(d).split('_')[1]
    if os.environ.get('IMPORT_ONLY') and \
            pid not in os.environ['IMPORT_ONLY'].split(','):
        continue
    for v in 'abc':
        pf = os.path.join(d, 'patch_%s.diff' % v)
        df = os.path.join(d, 'demo_%s.py' % v)
        if os.path.exists(pf) and os.path.exists(df):
            tgt = os.path.join(SEEDED, '%s_%s%s' % (pid, rnd, v))
            if not os.path.exists(tgt):
                os.makedirs(tgt)
                shutil.copy(pf, os.path.join(tgt, 'patch.diff'))
                shutil.copy(df, os.path.join(tgt, 'demo.py'))
                nf = os.path.join(d, 'notes_%s.md' % v)
                if os.path.exists(nf):
                    shutil.copy(nf, os.path.join(tgt, 'notes.md'))
rows = []
only = sys.argv[1:]
for tgt in sorted(glob.glob(os.path.join(SEEDED, 'C*_*'))):
    name = os.path.basename(tgt)
    mf = os.path.join(tgt, 'meta.json')
    if only and name not in only and os.path.exists(mf):
        rows.append(json.load(open(mf)))
        continue
    r = subprocess.run(['/venv/bin/python', os.path.join(VERIF, 'tools', 'eval_seed.py'),
                        name, os.path.join(tgt, 'patch.diff'), os.path.join(tgt, 'demo.py'),
                        '--confirm-only'],
                       capture_output=True, text=True)
    t = r.stdout
    try:
        d = json.loads(t[t.index('{'):])
    except Exception:
        print(name, 'EVAL ERROR', t[-300:], r.stderr[-300:]); continue
    notes = ''
    nf = os.path.join(tgt, 'notes.md')
    if os.path.exists(nf):
        notes = open(nf).read().strip()
    meta = {
        'seed': name,
        'breaks_property': name.split('_')[0],
        'origin': 'independent sub-agent given only the property text and a scratch worktree',
        'needs_to_manifest': notes,
        'confirmed': d['confirmed'],
        'what_was_run': [
            'scratch worktree of /repo HEAD: demo.py exits %s without the patch' % d.get('demo_without_patch'),
            'git apply patch.diff: %s' % d.get('tests'),
            'demo.py exits %s with the patch' % d.get('demo_with_patch'),
            'checks: tools/regress.py --update-meta (patch applied to a scratch copy of /repo/pyModelChecking, every check run with --repo <copy>)'],
        'detected_by': d['detected_by'],
        'inconclusive_in': d['inconclusive'],
        'reports': {k: v[:2] for k, v in d['reports'].items()},
    }
    json.dump(meta, open(mf, 'w'), indent=1)
    rows.append(meta)
    print(name, 'confirmed', d['confirmed'], 'detected_by', d['detected_by'], 'inconclusive', d['inconclusive'])
with open(os.path.join(SEEDED, 'INDEX.md'), 'w') as fh:
    fh.write('# Seeded changes and the checks that catch them\n\n')
    fh.write('Each directory holds `patch.diff` (apply with `git -C /repo apply`), `demo.py` (fails with the patch, passes without; run with the patched tree as cwd), `notes.md`, `meta.json`.\n\n')
    fh.write('| seed | breaks | confirmed | detected by (exit 1) | inconclusive (exit 2) |\n|---|---|---|---|---|\n')
    for m in rows:
        fh.write('| %s | %s | %s | %s | %s |\n' % (m['seed'], m['breaks_property'], m['confirmed'],
                 ', '.join(m['detected_by']) or '**none**', ', '.join(m['inconclusive_in']) or ''))
    det = sum(1 for m in rows if m['detected_by'])
    fh.write('\n%d of %d confirmed seeded changes are reported with a VIOLATION by at least one check.\n' % (det, len(rows)))
print('done', len(rows))
