#!/venv/bin/python
"""fill the @@..@@ placeholders of DESIGN.md from seeded/*/meta.json and
benign/results.json (development tool, run after tools/regress.py)"""
import glob
import json
import os
VERIF = os.path.dirname(os.path.dirname(os.path.abspath(__file__)))
seeds = [json.load(open(f)) for f in
         sorted(glob.glob(os.path.join(VERIF, 'seeded', '*', 'meta.json')))]
seeds = [m for m in seeds if m.get('confirmed')]
rep = [m for m in seeds if m['detected_by']]
own = [m for m in rep if m['breaks_property'] in m['detected_by']]
inc = [m for m in seeds if not m['detected_by']]
ben = json.load(open(os.path.join(VERIF, 'benign', 'results.json')))
alarm = [k for k, v in ben.items() if any(rc == 1 for rc in v.values())]
clean = [k for k, v in ben.items() if all(rc == 0 for rc in v.values())]
vals = {'SEEDS': len(seeds), 'REPORTED': len(rep), 'OWN': len(own),
        'INC': len(inc), 'BENIGN': len(ben), 'BCLEAN': len(clean),
        'BINC': len(ben) - len(clean) - len(alarm)}
print(vals)
print('undecided seeds:', [m['seed'] for m in inc])
print('neighbour-only:', [m['seed'] for m in rep if m not in own])
print('benign alarms:', alarm)
p = os.path.join(VERIF, 'DESIGN.md')
s = open(p).read()
for k, v in vals.items():
    s = s.replace('@@%s@@' % k, str(v))
open(p, 'w').write(s)
