#!/venv/bin/python
"""confirm a seeded change and run every check against it.

usage: eval_seed.py <seed-name> <patch.diff> <demo.py> [--keep <property> <needs...>]

1. scratch worktree of /repo HEAD under /tmp: demo passes; apply patch:
   65 tests pass, demo fails.  Worktree removed.
2. git -C /repo apply <patch>; run all claimed checks (--no-evidence);
   git -C /repo checkout -- .
prints a JSON summary on the last line.
"""
import json
import os
import subprocess
import sys
import tempfile

PY = '/venv/bin/python'
VERIF = os.path.dirname(os.path.dirname(os.path.abspath(__file__)))


def sh(cmd, cwd=None, timeout=600):
    r = subprocess.run(cmd, shell=True, cwd=cwd, capture_output=True,
                       text=True, timeout=timeout)
    return r.returncode, r.stdout + r.stderr


def main():
    name, patch, demo = sys.argv[1:4]
    patch = os.path.abspath(patch)
    demo = os.path.abspath(demo)
    out = {'seed': name, 'patch': patch}
    wt = tempfile.mkdtemp(prefix='seedwt_', dir='/tmp')
    os.rmdir(wt)
    rc, o = sh('git -C /repo worktree add -q --detach %s HEAD' % wt)
    try:
        rc, o = sh('PYTHONPATH=%s %s %s' % (wt, PY, demo), cwd=wt)
        out['demo_without_patch'] = rc
        rc, o = sh('git apply %s' % patch, cwd=wt)
        out['patch_applies'] = rc == 0
        if rc != 0:
            out['apply_error'] = o[-300:]
        rc, o = sh('%s -m pytest -q -p no:cacheprovider' % PY, cwd=wt)
        out['tests'] = o.strip().splitlines()[-1] if o.strip() else ''
        out['tests_pass'] = rc == 0 and '65 passed' in o
        rc, o = sh('PYTHONPATH=%s %s %s' % (wt, PY, demo), cwd=wt)
        out['demo_with_patch'] = rc
        out['demo_output'] = o[-400:]
    finally:
        sh('git -C /repo worktree remove --force %s' % wt)
    out['confirmed'] = bool(out.get('patch_applies') and out['tests_pass']
                            and out['demo_without_patch'] == 0 and
                            out['demo_with_patch'] != 0)
    if '--confirm-only' in sys.argv:
        out['checks'] = {}
        out['detected_by'] = []
        out['inconclusive'] = []
        out['reports'] = {}
        print(json.dumps(out, indent=1))
        return
    # run the checks against the patched /repo
    rc, o = sh('git -C /repo status --porcelain')
    if o.strip():
        print('refusing: /repo is not clean')
        sys.exit(3)
    man = json.load(open(os.path.join(VERIF, 'MANIFEST.json')))
    res = {}
    rc, o = sh('git -C /repo apply %s' % patch)
    try:
        if rc == 0:
            procs = {}
            for c in man['checks']:
                pid = c['property_id']
                procs[pid] = subprocess.Popen(
                    [PY, os.path.join(VERIF, 'check.py'), pid,
                     '--no-evidence'], stdout=subprocess.PIPE,
                    stderr=subprocess.STDOUT, text=True, cwd=VERIF)
            for pid, p in procs.items():
                so, _ = p.communicate(timeout=900)
                lines = [l for l in so.splitlines()
                         if l.startswith(('FINDING', 'INCONCLUSIVE',
                                          'ANALYSIS-ERROR'))]
                res[pid] = {'rc': p.returncode,
                            'lines': [l[:260] for l in lines[:3]]}
    finally:
        sh('git -C /repo checkout -- .')
    out['checks'] = {k: v['rc'] for k, v in res.items()}
    out['detected_by'] = sorted(k for k, v in res.items() if v['rc'] == 1)
    out['inconclusive'] = sorted(k for k, v in res.items() if v['rc'] == 2)
    out['reports'] = {k: v['lines'] for k, v in res.items() if v['rc'] != 0}
    print(json.dumps(out, indent=1))


if __name__ == '__main__':
    main()
