#!/venv/bin/python
"""regression of the checkers against the two corpora (development tool).

  seeded/<id>/patch.diff   property-breaking changes: at least one check
                            must exit 1 (the ones recorded in meta.json)
  benign/<name>.diff        behaviour-preserving refactorings: no check may
                            exit 1; exit 2 (inconclusive) is listed

Each patch is applied to a scratch copy of /repo/pyModelChecking (never to
/repo); checks run with --repo <copy> --no-evidence.

usage: regress.py [--jobs N] [--only seeded|benign] [name-substring ...]
"""
import json
import os
import shutil
import subprocess
import sys
import tempfile
from concurrent.futures import ThreadPoolExecutor

PY = '/venv/bin/python'
VERIF = os.path.dirname(os.path.dirname(os.path.abspath(__file__)))


def checks():
    man = json.load(open(os.path.join(VERIF, 'MANIFEST.json')))
    return [c['property_id'] for c in man['checks']]


def run_patch(kind, name, patch, props):
    d = tempfile.mkdtemp(prefix='regr_', dir='/tmp')
    try:
        shutil.copytree('/repo/pyModelChecking',
                        os.path.join(d, 'pyModelChecking'),
                        ignore=shutil.ignore_patterns('__pycache__'))
        r = subprocess.run(['patch', '-p1', '-s', '-i', patch], cwd=d,
                           capture_output=True, text=True)
        if r.returncode != 0:
            return kind, name, None, 'patch does not apply: ' + r.stdout[-200:]
        res = {}
        for prop in props:
            r = subprocess.run([PY, os.path.join(VERIF, 'check.py'), prop,
                                '--repo', d, '--no-evidence'],
                               capture_output=True, text=True, cwd=VERIF)
            line = [l for l in r.stdout.splitlines()
                    if l.startswith(('FINDING', 'INCONCLUSIVE',
                                     'ANALYSIS-ERROR'))]
            res[prop] = (r.returncode, line[0][:200] if line else '')
        return kind, name, res, ''
    finally:
        shutil.rmtree(d, ignore_errors=True)


def main():
    args = sys.argv[1:]
    jobs = 8
    only = None
    if args and args[0] == '--jobs':
        jobs = int(args[1])
        args = args[2:]
    if args and args[0] == '--only':
        only = args[1]
        args = args[2:]
    props = checks()
    work = []
    if only in (None, 'seeded'):
        sd = os.path.join(VERIF, 'seeded')
        for n in sorted(os.listdir(sd)):
            p = os.path.join(sd, n, 'patch.diff')
            if os.path.exists(p) and (not args or any(a in n for a in args)):
                work.append(('seeded', n, p))
    if only in (None, 'benign'):
        bd = os.path.join(VERIF, 'benign')
        for n in sorted(os.listdir(bd)):
            if n.endswith('.diff') and (not args or
                                        any(a in n for a in args)):
                work.append(('benign', n[:-5], os.path.join(bd, n)))
    bad = 0
    with ThreadPoolExecutor(jobs) as ex:
        futs = [ex.submit(run_patch, k, n, p, props) for (k, n, p) in work]
        for fu in futs:
            kind, name, res, err = fu.result()
            if res is None:
                print('%-8s %-22s ERROR %s' % (kind, name, err))
                bad += 1
                continue
            det = sorted(k for k, v in res.items() if v[0] == 1)
            inc = sorted(k for k, v in res.items() if v[0] == 2)
            if kind == 'seeded':
                ok = bool(det)
            else:
                ok = not det
            if not ok:
                bad += 1
            print('%-8s %-22s %s detected_by=%s inconclusive=%s' % (
                kind, name, 'ok  ' if ok else 'FAIL', ','.join(det) or '-',
                ','.join(inc) or '-'))
            if not ok or (kind == 'benign' and inc):
                for k in (det if kind == 'benign' else []) + inc:
                    print('      %s: %s' % (k, res[k][1]))
            sys.stdout.flush()
    print('regress: %d patches, %d failures' % (len(work), bad))
    sys.exit(1 if bad else 0)


if __name__ == '__main__':
    main()
