#!/venv/bin/python
"""regression of the checkers against the two corpora (development tool).

  seeded/<id>/patch.diff   property-breaking changes: at least one check
                            must exit 1 (the ones recorded in meta.json)
  benign/<name>.diff        behaviour-preserving refactorings: no check may
                            exit 1; exit 2 (inconclusive) is listed

Each patch is applied to a scratch copy of /repo/pyModelChecking (never to
/repo); checks run with --repo <copy> --no-evidence.

usage: regress.py [--update-meta] [--jobs N] [--only seeded|benign] [name-substring ...]
"""
import json
import os
import shutil
import subprocess
import sys
import tempfile
from concurrent.futures import ThreadPoolExecutor

PY = '/venv/bin/python'
VERIF = os.path.dirname(os.path.dirname(os.path.abspath(__file__)))


def checks():
    man = json.load(open(os.path.join(VERIF, 'MANIFEST.json')))
    return [c['property_id'] for c in man['checks']]


def run_patch(kind, name, patch, props):
    d = tempfile.mkdtemp(prefix='regr_', dir='/tmp')
    try:
        shutil.copytree('/repo/pyModelChecking',
                        os.path.join(d, 'pyModelChecking'),
                        ignore=shutil.ignore_patterns('__pycache__'))
        r = subprocess.run(['patch', '-p1', '-s', '-i', patch], cwd=d,
                           capture_output=True, text=True)
        if r.returncode != 0:
            return kind, name, None, 'patch does not apply: ' + r.stdout[-200:]
        res = {}
        for prop in props:
            r = subprocess.run([PY, os.path.join(VERIF, 'check.py'), prop,
                                '--repo', d, '--no-evidence'],
                               capture_output=True, text=True, cwd=VERIF)
            line = [l for l in r.stdout.splitlines()
                    if l.startswith(('FINDING', 'INCONCLUSIVE',
                                     'ANALYSIS-ERROR'))]
            res[prop] = (r.returncode, line[0][:200] if line else '')
        return kind, name, res, ''
    finally:
        shutil.rmtree(d, ignore_errors=True)


def main():
    args = sys.argv[1:]
    jobs = 8
    only = None
    update_meta = False
    if args and args[0] == '--update-meta':
        update_meta = True
        args = args[1:]
    if args and args[0] == '--jobs':
        jobs = int(args[1])
        args = args[2:]
    if args and args[0] == '--only':
        only = args[1]
        args = args[2:]
    props = checks()
    work = []
    if only in (None, 'seeded'):
        sd = os.path.join(VERIF, 'seeded')
        for n in sorted(os.listdir(sd)):
            p = os.path.join(sd, n, 'patch.diff')
            if os.path.exists(p) and (not args or any(a in n for a in args)):
                work.append(('seeded', n, p))
    if only in (None, 'benign'):
        bd = os.path.join(VERIF, 'benign')
        for n in sorted(os.listdir(bd)):
            if n.endswith('.diff') and (not args or
                                        any(a in n for a in args)):
                work.append(('benign', n[:-5], os.path.join(bd, n)))
    bad = 0
    collected = {}
    with ThreadPoolExecutor(jobs) as ex:
        futs = [ex.submit(run_patch, k, n, p, props) for (k, n, p) in work]
        for fu in futs:
            kind, name, res, err = fu.result()
            if res is None:
                print('%-8s %-22s ERROR %s' % (kind, name, err))
                bad += 1
                continue
            collected[(kind, name)] = res
            det = sorted(k for k, v in res.items() if v[0] == 1)
            inc = sorted(k for k, v in res.items() if v[0] == 2)
            if kind == 'seeded':
                ok = bool(det)
            else:
                ok = not det
            if not ok:
                bad += 1
            print('%-8s %-22s %s detected_by=%s inconclusive=%s' % (
                kind, name, 'ok  ' if ok else 'FAIL', ','.join(det) or '-',
                ','.join(inc) or '-'))
            if not ok or (kind == 'benign' and inc):
                for k in (det if kind == 'benign' else []) + inc:
                    print('      %s: %s' % (k, res[k][1]))
            sys.stdout.flush()
    print('regress: %d patches, %d failures' % (len(work), bad))
    if update_meta:
        write_meta(collected)
    sys.exit(1 if bad else 0)


def write_meta(collected):
    """refresh detected_by / inconclusive_in / reports in the seeds'
    meta.json and regenerate seeded/INDEX.md and benign/INDEX.md"""
    sd = os.path.join(VERIF, 'seeded')
    rows = []
    for n in sorted(os.listdir(sd)):
        mf = os.path.join(sd, n, 'meta.json')
        if not os.path.exists(mf):
            continue
        meta = json.load(open(mf))
        if ('seeded', n) in collected:
            res = collected[('seeded', n)]
            meta['detected_by'] = sorted(k for k, v in res.items()
                                         if v[0] == 1)
            meta['inconclusive_in'] = sorted(k for k, v in res.items()
                                             if v[0] == 2)
            meta['reports'] = {k: [v[1]] for k, v in res.items()
                               if v[0] != 0}
            note = ('detected_by refreshed by tools/regress.py: patch '
                    'applied to a scratch copy of /repo/pyModelChecking, '
                    'every check run with --repo <copy>')
            if note not in meta['what_was_run']:
                meta['what_was_run'].append(note)
            json.dump(meta, open(mf, 'w'), indent=1)
        rows.append(meta)
    with open(os.path.join(sd, 'INDEX.md'), 'w') as fh:
        fh.write('# Seeded changes and the checks that catch them\n\n')
        fh.write('Each directory holds `patch.diff` (apply with `git -C '
                 '/repo apply`), `demo.py` (fails with the patch, passes '
                 'without; run with the patched tree as cwd), `notes.md`, '
                 '`meta.json`. Names: `<property>_<a|b>` first round, '
                 '`<property>_2<a|b|c>` second round, `_3<a|b|c>` third '
                 '(indirect / history or edge input / subtle), `_4<a|b|c>` '
                 'fourth (two-place / optimisation gone wrong / '
                 'modernisation gone wrong).\n\n')
        fh.write('| seed | breaks | confirmed | detected by (exit 1) | '
                 'inconclusive (exit 2) |\n|---|---|---|---|---|\n')
        for m in rows:
            fh.write('| %s | %s | %s | %s | %s |\n' % (
                m['seed'], m['breaks_property'], m['confirmed'],
                ', '.join(m['detected_by']) or '**none**',
                ', '.join(m['inconclusive_in']) or ''))
        det = sum(1 for m in rows if m['detected_by'])
        fh.write('\n%d of %d confirmed seeded changes are reported with a '
                 'VIOLATION by at least one check.\n' % (det, len(rows)))
    bd = os.path.join(VERIF, 'benign')
    # results of earlier runs are kept, so that a partial run refreshes only
    # the patches it evaluated
    cache = os.path.join(bd, 'results.json')
    old = json.load(open(cache)) if os.path.exists(cache) else {}
    for (k, n), res in collected.items():
        if k == 'benign':
            old[n] = {c: v[0] for c, v in res.items()}
    old = {n: r for n, r in old.items()
           if os.path.exists(os.path.join(bd, n + '.diff'))}
    json.dump(old, open(cache, 'w'), indent=1, sort_keys=True)
    collected = {('benign', n): {c: (rc, '') for c, rc in r.items()}
                 for n, r in old.items()}
    with open(os.path.join(bd, 'INDEX.md'), 'w') as fh:
        fh.write('# Behaviour-preserving refactorings and what the checks '
                 'say\n\n`<area>_rN` first round (tidying), `<area>2_rN` '
                 'second round (structural), `<area>3_rN` third round '
                 '(changes that look risky but are correct), `<area>4_rN` / '
                 '`own4_rN` fourth round (two-place refactorings, '
                 'optimisations and modernisations done right). A check that '
                 'exits 1 on one of these is a false alarm.\n\n| patch | exit 1 (false alarm) '
                 '| exit 2 (inconclusive) |\n|---|---|---|\n')
        nb = nf = ni = 0
        for (k, n), res in sorted(collected.items()):
            if k != 'benign':
                continue
            nb += 1
            det = sorted(c for c, v in res.items() if v[0] == 1)
            inc = sorted(c for c, v in res.items() if v[0] == 2)
            nf += bool(det)
            ni += bool(inc)
            fh.write('| %s | %s | %s |\n' % (n, ', '.join(det) or '-',
                                             ', '.join(inc) or '-'))
        fh.write('\n%d refactorings: %d with a false alarm, %d with at '
                 'least one inconclusive check, %d fully decided.\n' % (
                     nb, nf, ni, nb - len([1 for (k, n), res in
                                           collected.items() if k == 'benign'
                                           and any(v[0] != 0 for v in
                                                   res.values())])))


if __name__ == '__main__':
    main()
