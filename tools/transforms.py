#!/venv/bin/python
"""systematic behaviour-preserving transformations of the whole package, to
test the checks for false alarms (development tool).

usage: transforms.py <mode> [name=new ...]
  unparse          every file rewritten by ast.unparse (comments, layout gone)
  rename-locals    every function-local variable x -> x_loc
  rename-private   every private function / class _f -> _zz_f, everywhere
  rename-fields    textual rename of identifiers:  a=b c=d ...
  fstrings         '..{}..'.format(a) -> f'..{a}..'
  super0           super(Class, self) -> super()
  literals         dict() -> {}, list() -> [], set([..]) -> set display / comprehension
  annotate         every parameter and return annotated
  ifswap           if c: X else: Y -> if not c: Y else: X

A scratch copy of /repo/pyModelChecking is transformed, the 65 tests are run
on it, then every check (quick, --repo <copy>); prints the checks that do not
exit 0.
"""
import ast
import os
import re
import shutil
import subprocess
import sys
import tempfile

VERIF = os.path.dirname(os.path.dirname(os.path.abspath(__file__)))


def files(root):
    for dp, dn, fn in os.walk(root):
        for f in fn:
            if f.endswith('.py'):
                yield os.path.join(dp, f)


def unparse(root):
    for p in files(root):
        src = open(p).read()        # read before the file is re-opened
        open(p, 'w').write(ast.unparse(ast.parse(src)) + '\n')


class _Locals(ast.NodeTransformer):
    def visit_FunctionDef(self, node):
        a = node.args
        params = set(x.arg for x in a.args + a.kwonlyargs + a.posonlyargs)
        if a.vararg:
            params.add(a.vararg.arg)
        if a.kwarg:
            params.add(a.kwarg.arg)
        declared = set()
        for n in ast.walk(node):
            if isinstance(n, (ast.Global, ast.Nonlocal)):
                declared |= set(n.names)
        stored = set()

        def collect(n):
            for c in ast.iter_child_nodes(n):
                if isinstance(c, (ast.FunctionDef, ast.Lambda, ast.ClassDef)):
                    continue
                if isinstance(c, ast.Name) and \
                        isinstance(c.ctx, (ast.Store, ast.Del)):
                    stored.add(c.id)
                collect(c)
        collect(node)
        ren = {x for x in stored if x not in params and x not in declared
               and not x.startswith('__')}
        for n in ast.walk(node):
            if n is not node and isinstance(n, (ast.FunctionDef, ast.Lambda,
                                                ast.ClassDef)):
                for m in ast.walk(n):
                    if isinstance(m, ast.Name):
                        ren.discard(m.id)

        class Sub(ast.NodeTransformer):
            def visit_FunctionDef(s, n):
                return n

            def visit_Lambda(s, n):
                return n

            def visit_ClassDef(s, n):
                return n

            def visit_Name(s, n):
                if n.id in ren:
                    n.id = n.id + '_loc'
                return n
        for i, st in enumerate(node.body):
            node.body[i] = Sub().visit(st)
        self.generic_visit(node)
        return node


def rename_locals(root):
    for p in files(root):
        t = _Locals().visit(ast.parse(open(p).read()))
        ast.fix_missing_locations(t)
        open(p, 'w').write(ast.unparse(t) + '\n')


def rename_private(root):
    priv = set()
    for p in files(root):
        for n in ast.walk(ast.parse(open(p).read())):
            if isinstance(n, (ast.FunctionDef, ast.ClassDef)) and \
                    n.name.startswith('_') and not n.name.startswith('__'):
                priv.add(n.name)

    class R(ast.NodeTransformer):
        def visit_FunctionDef(self, n):
            if n.name in priv:
                n.name = '_zz' + n.name
            self.generic_visit(n)
            return n

        def visit_ClassDef(self, n):
            if n.name in priv:
                n.name = '_zz' + n.name
            self.generic_visit(n)
            return n

        def visit_Name(self, n):
            if n.id in priv:
                n.id = '_zz' + n.id
            return n

        def visit_Attribute(self, n):
            self.generic_visit(n)
            if n.attr in priv:
                n.attr = '_zz' + n.attr
            return n
    for p in files(root):
        t = R().visit(ast.parse(open(p).read()))
        open(p, 'w').write(ast.unparse(t) + '\n')


def rename_fields(root, pairs):
    for p in files(root):
        s = open(p).read()
        for a, b in pairs:
            s = re.sub(r'(?<![A-Za-z0-9_])%s(?![A-Za-z0-9_])' % re.escape(a),
                       b, s)
        open(p, 'w').write(s)



class _FStrings(ast.NodeTransformer):
    """'..{}..'.format(a, b)  ->  f'..{a}..{b}..' (positional {} only)"""

    def visit_Call(self, n):
        self.generic_visit(n)
        f = n.func
        if isinstance(f, ast.Attribute) and f.attr == 'format' and \
                isinstance(f.value, ast.Constant) and \
                isinstance(f.value.value, str) and not n.keywords and \
                not any(isinstance(a, ast.Starred) for a in n.args):
            t = f.value.value
            parts = t.split('{}')
            if len(parts) - 1 != len(n.args) or '{' in ''.join(parts) or \
                    '}' in ''.join(parts):
                return n
            vals = []
            for i, lit in enumerate(parts):
                if lit:
                    vals.append(ast.Constant(lit))
                if i < len(n.args):
                    vals.append(ast.FormattedValue(value=n.args[i],
                                                   conversion=-1))
            return ast.copy_location(ast.JoinedStr(values=vals), n)
        return n


def fstrings(root):
    for p in files(root):
        t = _FStrings().visit(ast.parse(open(p).read()))
        ast.fix_missing_locations(t)
        open(p, 'w').write(ast.unparse(t) + '\n')


def super0(root):
    """super(Class, self).m(..) -> super().m(..) inside methods of Class
    whose first parameter is self"""
    for p in files(root):
        s = open(p).read()
        s = re.sub(r'super\((\w+), self\)', 'super()', s)
        open(p, 'w').write(s)


class _Literals(ast.NodeTransformer):
    """dict() -> {}, list() -> [], set([..]) -> {..} / set comprehension"""

    def visit_Call(self, n):
        self.generic_visit(n)
        if isinstance(n.func, ast.Name) and not n.keywords:
            if n.func.id == 'dict' and not n.args:
                return ast.copy_location(ast.Dict(keys=[], values=[]), n)
            if n.func.id == 'list' and not n.args:
                return ast.copy_location(ast.List(elts=[], ctx=ast.Load()), n)
            if n.func.id == 'set' and len(n.args) == 1:
                a = n.args[0]
                if isinstance(a, ast.ListComp):
                    return ast.copy_location(
                        ast.SetComp(elt=a.elt, generators=a.generators), n)
                if isinstance(a, ast.List) and a.elts and not any(
                        isinstance(e, ast.Starred) for e in a.elts):
                    return ast.copy_location(ast.Set(elts=a.elts), n)
        return n


class _Annotate(ast.NodeTransformer):
    def visit_FunctionDef(self, n):
        self.generic_visit(n)
        for a in n.args.args + n.args.kwonlyargs:
            if a.annotation is None and a.arg not in ('self', 'cls'):
                a.annotation = ast.Constant('object')
        if n.returns is None and n.name != '__init__':
            n.returns = ast.Constant('object')
        return n


class _IfSwap(ast.NodeTransformer):
    """if c: X else: Y  ->  if not c: Y else: X   (no elif)"""

    def visit_If(self, n):
        self.generic_visit(n)
        if n.orelse and not (len(n.orelse) == 1 and
                             isinstance(n.orelse[0], ast.If)):
            t = n.test
            if isinstance(t, ast.UnaryOp) and isinstance(t.op, ast.Not):
                nt = t.operand
            else:
                nt = ast.UnaryOp(op=ast.Not(), operand=t)
            return ast.copy_location(
                ast.If(test=nt, body=n.orelse, orelse=n.body), n)
        return n


def _apply(root, T):
    for p in files(root):
        t = T().visit(ast.parse(open(p).read()))
        ast.fix_missing_locations(t)
        open(p, 'w').write(ast.unparse(t) + '\n')

def main():
    mode = sys.argv[1]
    d = tempfile.mkdtemp(prefix='transf_', dir='/tmp')
    try:
        root = os.path.join(d, 'pyModelChecking')
        shutil.copytree('/repo/pyModelChecking', root,
                        ignore=shutil.ignore_patterns('__pycache__'))
        if mode == 'unparse':
            unparse(root)
        elif mode == 'rename-locals':
            rename_locals(root)
        elif mode == 'rename-private':
            rename_private(root)
        elif mode == 'rename-fields':
            rename_fields(root, [a.split('=') for a in sys.argv[2:]])
        elif mode == 'fstrings':
            fstrings(root)
        elif mode == 'super0':
            super0(root)
        elif mode == 'literals':
            _apply(root, _Literals)
        elif mode == 'annotate':
            _apply(root, _Annotate)
        elif mode == 'ifswap':
            _apply(root, _IfSwap)
        else:
            sys.exit('unknown mode')
        r = subprocess.run(['/venv/bin/python', '-m', 'pytest', '-q', '-p',
                            'no:cacheprovider'], cwd=d, capture_output=True,
                           text=True)
        print('tests:', r.stdout.strip().splitlines()[-1])
        r = subprocess.run(['/venv/bin/python',
                            os.path.join(VERIF, 'tools', 'runall.py'), d],
                           capture_output=True, text=True)
        bad = [l for l in r.stdout.splitlines()
               if not (l.startswith('C') and ' rc=0 ' in l)]
        print('\n'.join(bad) if bad else 'all checks exit 0')
    finally:
        shutil.rmtree(d, ignore_errors=True)


if __name__ == '__main__':
    main()
