#!/venv/bin/python
"""run every claimed check against behaviour-preserving refactorings.

usage: eval_refac.py <patch.diff>...

For each patch: scratch worktree of /repo HEAD: patch applies, 65 tests pass
(worktree removed); then git -C /repo apply, all checks (--no-evidence),
git -C /repo checkout -- .   exit 1 of a check = false alarm, exit 2 =
inconclusive.  Prints one JSON object per patch.
"""
import json
import os
import subprocess
import sys
import tempfile

PY = '/venv/bin/python'
VERIF = os.path.dirname(os.path.dirname(os.path.abspath(__file__)))


def sh(cmd, cwd=None, timeout=900):
    r = subprocess.run(cmd, shell=True, cwd=cwd, capture_output=True,
                       text=True, timeout=timeout)
    return r.returncode, r.stdout + r.stderr


def one(patch, tier):
    patch = os.path.abspath(patch)
    out = {'patch': patch}
    wt = tempfile.mkdtemp(prefix='refwt_', dir='/tmp')
    os.rmdir(wt)
    sh('git -C /repo worktree add -q --detach %s HEAD' % wt)
    try:
        rc, o = sh('git apply %s' % patch, cwd=wt)
        out['applies'] = rc == 0
        rc, o = sh('%s -m pytest -q -p no:cacheprovider' % PY, cwd=wt)
        out['tests_pass'] = rc == 0 and '65 passed' in o
    finally:
        sh('git -C /repo worktree remove --force %s' % wt)
    if not (out['applies'] and out['tests_pass']):
        return out
    rc, o = sh('git -C /repo status --porcelain')
    if o.strip():
        print('refusing: /repo is not clean')
        sys.exit(3)
    man = json.load(open(os.path.join(VERIF, 'MANIFEST.json')))
    res = {}
    rc, o = sh('git -C /repo apply %s' % patch)
    try:
        procs = {}
        for c in man['checks']:
            pid = c['property_id']
            procs[pid] = subprocess.Popen(
                [PY, os.path.join(VERIF, 'check.py'), pid, '--tier', tier,
                 '--no-evidence'], stdout=subprocess.PIPE,
                stderr=subprocess.STDOUT, text=True, cwd=VERIF)
        for pid, p in procs.items():
            so, _ = p.communicate(timeout=1800)
            lines = [l for l in so.splitlines()
                     if l.startswith(('FINDING', 'INCONCLUSIVE',
                                      'ANALYSIS-ERROR'))]
            res[pid] = {'rc': p.returncode,
                        'lines': [l[:400] for l in lines[:4]]}
    finally:
        sh('git -C /repo checkout -- .')
    out['false_alarm'] = sorted(k for k, v in res.items() if v['rc'] == 1)
    out['inconclusive'] = sorted(k for k, v in res.items() if v['rc'] == 2)
    out['reports'] = {k: v['lines'] for k, v in res.items() if v['rc'] != 0}
    return out


def main():
    args = sys.argv[1:]
    tier = 'quick'
    if args and args[0] == '--thorough':
        tier = 'thorough'
        args = args[1:]
    for p in args:
        print(json.dumps(one(p, tier), indent=1))
        sys.stdout.flush()


if __name__ == '__main__':
    main()
