#!/venv/bin/python
"""run every claimed check (quick, --no-evidence) on a tree, in parallel, and
print one line per check.   usage: runall.py [DIR=/repo] [--tier T]"""
import json, os, subprocess, sys
from concurrent.futures import ThreadPoolExecutor
VERIF = os.path.dirname(os.path.dirname(os.path.abspath(__file__)))
args = [a for a in sys.argv[1:] if not a.startswith('--')]
repo = args[0] if args else '/repo'
tier = 'thorough' if '--thorough' in sys.argv else 'quick'
props = [c['property_id'] for c in json.load(open(os.path.join(VERIF, 'MANIFEST.json')))['checks']]
def one(p):
    r = subprocess.run(['/venv/bin/python', os.path.join(VERIF, 'check.py'), p, '--repo', repo,
                        '--tier', tier, '--no-evidence'], capture_output=True, text=True, cwd=VERIF)
    f = [l for l in r.stdout.splitlines() if l.startswith('FINDING')]
    u = [l for l in r.stdout.splitlines() if l.startswith(('INCONCLUSIVE', 'ANALYSIS-ERROR'))]
    k = [l for l in r.stdout.splitlines() if l.startswith('KNOWN-FINDING')]
    return p, r.returncode, f, u, k
bad = 0
with ThreadPoolExecutor(10) as ex:
    for p, rc, f, u, k in ex.map(one, props):
        print('%s rc=%d findings=%d undecided=%d known=%d' % (p, rc, len(f), len(u), len(k)))
        for l in (f + u)[:2]:
            print('    ' + l[:230])
        bad += rc != 0
sys.exit(1 if bad else 0)
