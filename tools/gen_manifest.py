#!/venv/bin/python
"""writes /verif/MANIFEST.json from the table below (kept in one place so the
manifest is always valid)"""
import json
import os
import sys

HERE = os.path.dirname(os.path.dirname(os.path.abspath(__file__)))

PY = '/venv/bin/python'

PARTIAL = (' PARTIAL: decides the named structural clauses, each a necessary '
           'condition of the property (breaking it breaks the behaviour on '
           'some input); it does not decide the run-time behaviour itself.')

CLAIMED = {
    'C06': dict(
        partial=True,
        text='Decides the renaming clause only: a type-tag flow analysis '
             'over every function reachable from the three modelchecks '
             '(abstract interpretation per function, return and parameter '
             'types closed by fixpoint over the call graph) shows that '
             'values tagged State (what states()/nodes()/next()/edges hand '
             'out, keys of the adjacency and label dictionaries, '
             'atom.state) and AtomName reach only ==, hash, `in`, storage, '
             'return and message formatting -- never <,>, sorting without '
             'key, arithmetic, subscripting, attribute access or '
             'isinstance. By parametricity the answers are invariant under '
             'any bijective renaming of states/atoms (including to tuples '
             'or mixed types) up to iteration order. A scratch variant with '
             'an injected sorted(states) must be flagged on every run. The '
             'clauses about input ordering, PYTHONHASHSEED and unreachable '
             'states are statements about run-time iteration order and are '
             'NOT decided.',
        ref='3-C06',
        note='trusted: seed tables of the documented graph/Kripke API '
             '(method result, field and parameter types); the '
             'iteration-order / hash-seed clauses are not decided by any '
             'static argument in reach',
        technique='type-tag (taint) flow analysis with interprocedural '
                  'return/parameter type fixpoint; opaque-value usage '
                  'rule'),
    'C07': dict(
        text='Interprocedural effect/alias summaries (parameters modified, '
             'results aliased, values stored, module/class writes) are '
             'computed for all ~190 functions by abstract interpretation '
             'and closed over the call graph (class-hierarchy analysis for '
             'unknown receivers, least fixpoint). The summaries of the '
             'three modelcheck functions modify none of their parameters: '
             'on no path and through no callee is a caller-owned structure '
             'or formula written, so every mutator receives a clone or a '
             'graph built in the call. Formula fields are written only in '
             'constructors; nothing reachable keeps or reads state outside '
             'its arguments (module/class writes, mutable defaults, '
             'globals, ambient reads). Covers every call history because it '
             'is a statement about all paths of the code.',
        ref='3-C07',
        note='trusted: no reflection/monkey-patching; lark parsing is pure; '
             'constructors of DiGraph/Kripke copy their arguments (decided '
             'by C13 R-G-0 / C14 R-K-1); set members and dict keys are '
             'hashable values; in-process iteration order is C06',
        technique='interprocedural effect + alias analysis (abstract '
                  'interpretation per function, CHA call graph, least '
                  'fixpoint), clone-before-mutate typestate'),
    'C08': dict(
        text='Static decision, for every operator tree, of sort membership: '
             'signature table of all 44 alphabet classes rebuilt from source '
             '(C3 MRO, resolved __init__, operand class) vs the documented '
             'syntax; abstract interpretation of wrap_subformulas (every '
             'stored operand passed the sort check), of cast_to for all 176 '
             '(class,target) pairs and of the three modelcheck entry points '
             '(guards dominate the core, rejections are TypeError). By '
             'induction on construction this covers all trees, which tests '
             'cannot enumerate.',
        ref='3-C08',
        note='trusted: ast parse of the current source, the hand-transcribed '
             'DOC_SYNTAX table, no reflection/monkey-patching; arity is an '
             'observation, not armed',
        technique='class-lattice signature analysis + path-sensitive '
                  'abstract interpretation of constructors/casts/guards'),
    'C01': dict(
        partial=True,
        text='The CTL labeller is discovered from CTL.modelcheck and '
             'interpreted abstractly per formula shape (19 shapes): every '
             'restricted shape is handled directly and every other shape is '
             'rewritten once into a directly handled one (termination); the '
             '16 CTL rewrite rules are valid equivalences (C05 engine); '
             'each of the 9 direct handlers (Not, Or, atom, true/false, EX, '
             'EU, EG) is summarised as a closed set/graph-algebra term and '
             'that extracted term equals the documented semantics on every '
             'total structure with <=3 states and all child sets; the memo '
             'is per call and keyed by the handler\'s own formula.',
        ref='3-C01',
        note='trusted: graph primitives (subgraph, reversal, reachability, '
             'SCC, next) behave as documented (C12 n/a, C13); handler '
             'summaries compared on all structures <=3 states (bounded); '
             'evaluator of extracted terms in pmcv/galg.py',
        technique='abstract interpretation (dispatch table, set/graph '
                  'algebra summaries of handlers) + bounded equivalence of '
                  'the extracted summary with the documented fixpoint '
                  'semantics'),
    'C02': dict(
        partial=True,
        text='The parts of the LTL tableau procedure are discovered from '
             'LTL.modelcheck and analysed separately: the E-procedure '
             'receives the path formula under an odd number of negations '
             'and its result is complemented w.r.t. the states; one '
             'iteration of the closure worklist per formula kind pushes '
             'exactly the CGP closure members (other kinds raise '
             'TypeError); one iteration of the atom builder per formula '
             'kind on a generic atom (membership facts as path conditions, '
             'operands decided by the sort-key invariant) leaves the atom '
             'and every forked atom with exactly one of phi / not phi, '
             'justified by its operands; the edge predicate, the '
             'self-fulfilling-SCC filter and the answer filter are '
             'summarised and compared with their specification on all '
             'small instances; the SCC filter applies no in-place operator '
             'to a tableau atom; an atomic proposition looked up among the '
             'label names is found iff it prints as its name. Two genuine '
             'defects found and repaired.',
        ref='3-C02',
        note='trusted: sort-key invariant of the atom builder; graph '
             'primitives as documented; formulas compare by structure '
             '(C09/C11); soundness/completeness of the tableau '
             'construction itself is not decided',
        technique='per-iteration abstract interpretation (Hoare-style) of '
                  'closure and atom builder with a membership-facts domain; '
                  'bounded equivalence of extracted guard summaries'),
    'C03': dict(
        partial=True,
        text='The CTL* checker is analysed as a composition: the eliminator '
             'of quantified subformulas (discovered from CTLS.modelcheck) '
             'is interpreted per formula shape (18 shapes): atoms '
             'unchanged, a quantified subformula replaced by an atomic '
             'proposition named by the guarded fresh-name generator and '
             'added to labels(s) of the same structure for exactly the '
             'states returned for that formula, every other formula rebuilt '
             'with the same class over its processed children in order; per '
             'quantifier CTL is tried first, on TypeError E g is rewritten '
             'to not A not g (valid by normal form) and A g goes to the LTL '
             'checker; every result originates from CTL/LTL modelcheck on '
             'the same cloned structure.',
        ref='3-C03',
        note='trusted: C01/C02 for the delegated checkers (exactness of '
             'the answers is inherited, not decided here)',
        technique='abstract interpretation of the eliminator per shape '
                  '(structure preservation, provenance), guard dominance, '
                  'rewrite validity by normal form'),
    'C04': dict(
        partial=True,
        text='By composition; the agreement of the three checkers itself '
             '(a relation between run-time results) is NOT decided. Decided '
             'are the code-shape clauses that are necessary conditions of '
             'the named laws of C04, all of them rules about the checkers: '
             'the CTL handlers of Not/Or/EX/EU/EG equal complement / union '
             '/ pre-image / fixpoints on every structure with <= 3 states '
             'and do not modify memoised child sets (Boolean and fixpoint '
             'laws); every CTL rewrite rule (And, Imply, AX, AF, AG, AU, AR, '
             'EF, ER) is valid and LNot has odd parity (A g = not E not g); '
             'LTL computes A g as the complement of E not g and the parts of '
             'its tableau satisfy their necessary conditions; CTL* delegates '
             'to CTL/LTL on the processed formula; compute_SCCs satisfies '
             'the necessary conditions EG and the tableau rely on; each '
             'modelcheck parses text with the parser of its own logic.',
        ref='3-C04',
        note='trusted: as for C01-C03; agreement follows from exactness of '
             'the three checkers, which is only partially decided',
        technique='composition of the abstract-interpretation / bounded '
                  'summary-equivalence rules of C01, C02, C03, C05, C10, C12 '
                  'that are necessary conditions of a named law of C04 '
                  '(table in pmcv/rules/c04.py)'),
    'C05': dict(
        text='Every rewriter (get_equivalent_restricted_formula of each '
             'alphabet class of CTL*, LTL, CTL; 41 rule instances) is '
             'interpreted abstractly on a generic instance with hole '
             'children, giving closed rewrite templates. (a) templates use '
             'only the restricted alphabet over rewritten children: by '
             'induction on height every output is restricted -- complete. '
             '(b) each template is an equivalence: proved by definitional '
             'normal form, else decided by evaluating the two extracted '
             'terms (never repository code) on all small models, verdict '
             'recorded as bounded(n); CTL* equivalence is a congruence, so '
             'valid closed rules give equivalence for all formulas. LNot: '
             'parity of stripped/added negations on every path.',
        ref='3-C05',
        note='trusted: documented semantics as implemented by the 150-line '
             'evaluator in pmcv/oracle.py; bounded verdicts hold up to 2 '
             '(quick) / 3 (thorough) states resp. lassos of length 4 / 6; '
             'bare CTL path formulas (X p without quantifier) not armed',
        technique='abstract interpretation into rewrite templates + '
                  'structural induction; template validity by normal form '
                  'or bounded model enumeration of the extracted terms'),
    'C09': dict(
        text='Round trip by structural induction, all parts decided '
             'statically: the grammar text of each parser is obtained by '
             'abstract interpretation of init_submodule; canonical LR(1) '
             'item sets show each grammar unambiguous up to value (PL and '
             'CTL* only through one transparent parenthesis production, '
             'proven value-redundant); every printer template (extracted '
             'from __str__ with children as placeholders, 40 templates) has '
             'exactly one derivation value: the same constructor over the '
             'children in order; callbacks exist; printer and grammar share '
             'one symbol table; the printers read as grammars over '
             'canonical tokens are LR(1), so printing is injective (CTL* / '
             'LTL / PL notation and CTL\'s own notation); every derivation '
             'value is a formula of the parser\'s own logic (grammar typing); '
             'no transformer fills a class-body container per instance.',
        ref='3-C09',
        note='trusted: lark expands EBNF faithfully, its contextual lexer '
             'splits printer output at the blanks/parentheses the printer '
             'emits and its LALR driver follows its table; atoms '
             'identifier-style and not reserved; n-ary and/or arity >= 2',
        technique='grammar analysis: canonical LR(1) conflict check, '
                  'sentential-form recogniser over printer templates '
                  '(string-template abstract interpretation), structural '
                  'induction'),
    'C10': dict(
        partial=True,
        text='Every grammar is sort-typed: the least fixpoint of possible '
             'root operators per nonterminal shows that no derivation hands '
             'a constructor an operand (or a number of operands) it does '
             'not accept (C08 signature table), so no foreign exception '
             'escapes and every accepted string denotes a formula of '
             'exactly that logic; operator tokens agree with the class each '
             'callback builds; callbacks exist and build through the '
             'parser\'s own language; modelchecks default to their own '
             'parser; Parser.__call__ translates exactly lark\'s two '
             'exception classes into the positioned package errors; the '
             'leaf constructors the callbacks call (AtomicProposition on '
             'token text, Bool) have no raising path for a str / bool '
             'argument; each grammar is conflict-free (canonical LR(1)), so '
             'lark parses it as written.',
        ref='3-C10',
        note='trusted: lark raises only UnexpectedToken / '
             'UnexpectedCharacters on malformed input; that lark\'s position '
             'is the offending index (decided: it is handed on unchanged) '
             'and the lexer\'s splitting of glued tokens are run-time '
             'matters, not decided',
        technique='grammar sort typing (least fixpoint), slot/alias '
                  'agreement, exception-translation path analysis'),
    'C11': dict(
        partial=True,
        text='For each of the 66 classes of the formula lattice the '
             'MRO-resolved __eq__/__hash__ are interpreted abstractly: both '
             'exist (no __eq__ without a __hash__ at or below it), equality '
             'is string equality of printed forms, the hash is a function '
             'of the same key (Bool: value comparison with bool and Bool). '
             'clone of a generic instance of every class is the same class '
             'over clones of all children in order. The printed form is an '
             'injective key (printer grammars of both notations are LR(1) '
             'over canonical tokens). Hence f == g iff same tree, equal '
             'formulas hash equally, == is an equivalence, clone shares '
             'nothing. Every attribute == reads on the other operand under '
             'an isinstance test exists on each admitted class that can '
             'reach the method as right operand (constructor-chain field '
             'analysis + reflected-operand priority); the comparison key is '
             'recomputed from the current tree, not memoised in the '
             '(mutable) node.',
        ref='3-C11',
        note='trusted: atoms identifier-style, not reserved words; str() '
             'deterministic (C07 R-PURE-4)',
        technique='protocol-coherence analysis over the class lattice + '
                  'clone templates + LR(1) injectivity of the printers'),
    'C12': dict(
        partial=True,
        text='Necessary conditions only. The two blocks of the iterative '
             'lowlink algorithm in compute_SCCs -- the DFS step (take the '
             'next successor, open it if new) and the post-order step -- '
             'are interpreted abstractly on symbolic bookkeeping state '
             '(roles lowlink / disc / closed set / component stack '
             'discovered from the code, local helper closures seen '
             'through): a newly opened node gets a strictly increasing '
             'discovery number under the not-yet-discovered test and its '
             'lowlink starts equal to it; every lowlink update is monotone '
             '(min with the current value), uses the successor being '
             'scanned and is dominated by the closed-set test; a component '
             'is emitted exactly under lowlink[v] == disc[v]; on emission '
             'the root and every popped node are yielded and closed and the '
             'pop loop compares discovery times; a non-root is pushed; the '
             'argument is not modified; the yielded list is not used by the '
             'generator after the yield (use-after analysis); the '
             'successor scan of the post-order step has no early exit and '
             'the closed set is never shrunk; the DiGraph '
             'mutators keep every edge end registered as a node, graphs '
             'derived from G (clone / reversed / subgraph, Kripke.clone) '
             'share no successor set with it, and nodes '
             'are never ordered or sorted in graph.py. Breaking any of them gives a wrong '
             'partition on some graph and insertion order. NOT decided: '
             'that these conditions suffice (partition and mutual '
             'reachability for every digraph).',
        ref='3-C12',
        note='trusted: the DFS driver visits every successor of every node '
             '(iterator protocol) -- not decided; another SCC algorithm '
             'yields INCONCLUSIVE, not a verdict',
        technique='per-step abstract interpretation of the DFS and '
                  'post-order blocks + monotonicity / guard-dominance / '
                  'pairing rules'),
    'C13': dict(
        partial=True,
        text='DiGraph is analysed at the level of its adjacency dictionary: '
             'accessors, constructor (symbolic unrolled instances) and '
             'mutators agree with the adjacency model; effect/alias analysis '
             'shows that reachability, reversal, subgraph, clone and '
             'compute_SCCs write nothing reachable from the graph/argument '
             'and return no mutable object of it (complete); the extracted '
             'set-builder summaries of subgraph/reversed/clone equal the '
             'specification on every digraph with <=3 nodes and every node '
             'subset; the five worklist-closure conditions of reachability '
             '(each necessary, together sufficient) hold; the adjacency map '
             'is a plain dict, or no read-only method subscripts an '
             'auto-inserting map with a key that may be missing.',
        ref='3-C13',
        note='trusted: Python dict/set semantics; bounded comparison of '
             'extracted summaries (<=3 nodes); worklist conditions are '
             'recognised on the interpreter loop summary',
        technique='effect + alias analysis; abstract interpretation into '
                  'set-builder summaries with bounded equivalence; '
                  'structural worklist-closure conditions'),
    'C14': dict(
        text='Kripke is interpreted abstractly on top of the DiGraph '
             'primitives (C13). The constructor is summarised as its paths '
             '(conditions, resulting fields) and compared with the '
             'documented constructor on ~7000 argument tuples (relations '
             'with <=3 edges over 3 nodes, non-total relations, labels for '
             'non-states, S0 outside S): it succeeds exactly on total '
             'relations, labels every state, restricts S0, and copies every '
             'label set (alias analysis). labels(s)/next(s) raise '
             'RuntimeError on a non-state. clone/get_substructure are '
             'summarised as constructor calls whose four arguments are '
             'compared with the specification on a family of labelled '
             'structures and all node subsets; effect/alias analysis for '
             'the original.',
        ref='3-C14',
        note='trusted: DiGraph primitives as verified by C13; bounded '
             'comparison (<=3 states); Python dict/set semantics',
        technique='abstract interpretation into path summaries and '
                  'constructor-argument provenance + alias/effect analysis; '
                  'bounded equivalence of the extracted summary'),
    'C15': dict(
        partial=True,
        text='(1) get_fair_states is summarised by abstract interpretation '
             'as a closed term over SCC/reversal/reachability and compared '
             'with "states from which a path visits every set of F '
             'infinitely often" on every total structure with <=3 states '
             'and every F with <=2 sets; (2) every fair rewriter '
             '(get_equivalent_non_fair_formula, 44 generic instances) '
             'returns a formula (constructor arity/sort summaries) and (4) '
             'its extracted rule agrees with the Clarke-Grumberg-Peled fair '
             'semantics on all small (K,F); (3) alphabet typestate of the '
             'formula handed to the LTL tableau under fairness; (5) F=None '
             'runs no fairness code, F given labels a clone; (6) the effect '
             'summary of get_fair_states writes nothing reachable from K or '
             'F and its result is an object of its own; the clone that '
             'receives the fair label shares no label set with K; the CTL* '
             'eliminator passes the fairness label it was given to every '
             'recursive elimination and quantifier check. Seven genuine '
             'defects are listed as known findings (inverted fair-SCC '
             'predicate; inexact fair EG/AF/AU/ER and CTL*/LTL reductions).',
        ref='3-C15',
        note='trusted: CGP fair semantics as implemented in pmcv/oracle.py '
             '(Sem); graph primitives as documented; Bool leaf rule not '
             'armed; exactness of fair answers beyond these clauses is not '
             'decided',
        technique='abstract interpretation into graph-algebra summaries and '
                  'fair rewrite templates + bounded validity of the '
                  'extracted terms; alphabet typestate'),
    'C16': dict(
        partial=True,
        text='Hash-consing discipline decided on every path of the node '
             'constructors: a non-terminal node is allocated only after '
             '`low is not high` and after the unique-table lookup '
             '(discovered) missed for exactly (var, low, high); the fresh '
             'node stores the triple and is registered in one registry of '
             'each child; the lookup scans one of those registries and '
             'tests variable and the other child by identity; terminals '
             'are allocated only on a table miss and stored; nothing else '
             'allocates; node fields are written only by the reset routine '
             'called from the constructors; registries are WeakSets; node '
             '==/hash are identity; OBDD equality is root identity plus '
             'ordering equality; memo tables are allocated per top-level '
             'operation and no table keyed by id() of a node outlives a '
             'call. Each clause is necessary for "one node per '
             'triple" under every creation history.',
        ref='3-C16',
        note='trusted: WeakSet iteration yields exactly the live parents; '
             'single-threaded use; behaviour under interleavings of '
             'garbage collection and creation is not decided',
        technique='typestate / dominance analysis on constructor paths, '
                  'who-may-allocate and who-may-write rules, pairing of '
                  'registration and lookup'),
    'C17': dict(
        partial=True,
        text='The recursion steps of apply (discovered from OBDD.apply), '
             'restrict and negation are interpreted abstractly with the '
             'recursive calls kept symbolic; each extracted step, with the '
             'recursive calls replaced by their specification (induction '
             'hypothesis), is checked on every pair of reduced ordered '
             'diagrams over two variables and and/or/xor: right function, '
             'the node built tests a variable earlier than everything below '
             'it, recursive operands strictly smaller. Result caches are '
             'keyed consistently; OBDD.apply is guarded by equality of '
             'orderings (RuntimeError) and passes the roots in order; a '
             'variable outside the ordering raises RuntimeError; &,|,^ pass '
             'the matching operator; every memo table handed to the apply / '
             'restrict / negation recursions is allocated for that one '
             'top-level operation (their keys contain neither the operator, '
             'the ordering nor the lifetime of the nodes); ListOrdering '
             'equality / order / membership folded on small lists. No '
             'method of a node class hands out a mutable container the '
             '(shared, hash-consed) node keeps; the constructor reads an '
             'explicit empty ordering like any other ordering. '
             'Reducedness follows from C16.',
        ref='3-C17',
        note='trusted: induction over operand size; step checked on all '
             'operand pairs over 2 variables (quick) / a sample over 3 '
             '(thorough); hash-consed construction (C16); variables() not '
             'decided',
        technique='abstract interpretation of one recursion step + '
                  'inductive-step check of the extracted step against the '
                  'Shannon-expansion specification on all small operands'),
    'C18': dict(
        partial=True,
        text='The expression parser of the OBDD module is interpreted '
             'abstractly per function: every path returns an OBDD-valued '
             'expression or raises SyntaxError (no fall-through None); '
             'and/&, or/|, not/~ map to the same operation; what goes into '
             'Ordering([...]) and into the variable slot of nodes is str by '
             'type flow from the ast field types; the node printer\'s '
             'templates (extracted from __str__ for every shape of '
             'children, including its conditional parenthesisation) use '
             'only tokens of the parser\'s case table and every embedded '
             'child keeps its meaning when the composed template text is '
             'read by Python\'s grammar; the ordering object keeps no '
             'reference to the list it was built from and get_list() hands '
             'out a copy (the lambda header of str(o) comes from it); an '
             'explicit empty ordering takes the expression route, only a '
             'missing one the lambda route. Three genuine defects found and '
             'repaired (fix: commits).',
        ref='3-C18',
        note='trusted: ast field types (Name.id, arg.arg: str; id(): int); '
             'ast.parse is the parser the library itself uses and is applied '
             'to template text, never to repository output; equality of the '
             'two notations as functions is C16/C17 matter, not decided',
        technique='path-sensitive dispatch-totality analysis, type flow, '
                  'printer-template extraction + precedence check against '
                  'the host grammar'),
    'C19': dict(
        partial=True,
        text='Alias summaries show that the object returned by each '
             'modelcheck aliases no argument and no module/class state; '
             'every CTL handler and LTL.modelcheck return a set allocated '
             'in the call and CTL*.modelcheck delegates to them; the LTL '
             'result is states(K) minus a set and CTL handler results equal '
             'the documented semantics (subsets of the states); the '
             'RuntimeError preconditions of the graph primitives composed '
             'by the CTL handlers are discharged on every small model; the '
             'fresh atom / fair label generators (discovered) return a name '
             'guarded by a membership loop over the labels of the same '
             'structure. Not decided: implicit exceptions in general.',
        ref='3-C19',
        note='trusted: as C01/C07; set members hashable; heterogeneous '
             'state types are the business of R-OPQ-1 (C06)',
        technique='alias/provenance analysis + typestate of returned '
                  'objects; guard dominance for fresh names'),
}

NOT_YET = {}

NA = {}


def main():
    props = [json.loads(l) for l in open(os.path.join(HERE,
                                                      'properties.jsonl'))]
    ids = [p['id'] for p in props]
    checks = []
    na = []
    for pid in ids:
        if pid in CLAIMED and os.path.exists(
                os.path.join(HERE, 'pmcv', 'rules', pid.lower() + '.py')):
            c = CLAIMED[pid]
            checks.append({
                'property_id': pid,
                'quick_cmd': '%s check.py %s --tier quick' % (PY, pid),
                'thorough_cmd': '%s check.py %s --tier thorough' % (PY, pid),
                'evidence_file': 'evidence/%s.json' % pid,
                'replay_cmd_template': '%s check.py %s --replay {path}' % (
                    PY, pid),
                'engine': 'pmcv',
                'level_claimed': {
                    'category': 'other',
                    'text': c['text'] + (PARTIAL if c.get('partial') else ''),
                    'design_ref': 'DESIGN.md ' + c['ref']},
                'level_note': c['note'],
                'technique': 'static analysis: ' + c['technique'],
            })
        elif pid in NA:
            na.append({'property_id': pid, 'reason': NA[pid]})
        else:
            na.append({'property_id': pid,
                       'reason': 'check designed (DESIGN.md section 3) but '
                                 'not built yet; not claimed until it is'})
    man = {
        'version': 1,
        'setup_cmd': '%s tools/setup_check.py' % PY,
        'hooks': {
            'guard': 'PYMODELCHECKING_VERIF',
            'enable': 'none needed: the checks read the source text of '
                      '/repo, nothing is instrumented',
            'baseline_off_cmd': 'cd /repo && /venv/bin/python -m pytest -q '
                                '-p no:cacheprovider --timeout=900',
            'source_commits': [],
            'add_only': True,
        },
        'engines': [{
            'name': 'pmcv',
            'path': 'pmcv/',
            'serves_properties': [c['property_id'] for c in checks],
            'kind_free_text': 'static analysis over ast: program model '
            '(imports, C3 MRO, Lang-relative resolution), path-enumerating '
            'abstract interpreter with symbolic values, grammar analyser '
            '(LR(1)), rule-validity oracle for extracted rewrite templates',
        }],
        'checks': checks,
        'not_applicable': na,
        'notes': 'Exit 0 ok (KNOWN-FINDING lines only) / 1 VIOLATION / 2 '
                 'ANALYSIS-ERROR or INCONCLUSIVE. The rules of a property '
                 'run independently: a finding of any rule is reported even '
                 'when another rule is undecided; with no finding an '
                 'undecided rule gives exit 2. The thorough tier uses the '
                 'larger bounds and re-analyses seeded variants of the tree '
                 'under check (scratch copies with one patch of '
                 '/verif/seeded applied) that the check must report '
                 '(liveness of zero-expected rules). No check imports or '
                 'runs repository code.',
    }
    with open(os.path.join(HERE, 'MANIFEST.json'), 'w') as fh:
        json.dump(man, fh, indent=1)
    print('MANIFEST.json: %d checks, %d not applicable' % (len(checks),
                                                           len(na)))


if __name__ == '__main__':
    main()
