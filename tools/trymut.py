#!/venv/bin/python
"""dev helper: run checks on a scratch copy of /repo with one textual edit.
usage: trymut.py [--patch file.diff] PROP[,PROP..] relpath old new"""
import os, shutil, subprocess, sys, tempfile
patch = None
if sys.argv[1] == '--patch':
    patch = os.path.abspath(sys.argv[2])
    del sys.argv[1:3]
props, rel, old, new = sys.argv[1:5]
d = tempfile.mkdtemp(prefix='mut_', dir='/tmp')
try:
    shutil.copytree('/repo/pyModelChecking', os.path.join(d, 'pyModelChecking'),
                    ignore=shutil.ignore_patterns('__pycache__'))
    if patch:
        subprocess.run(['patch', '-p1', '-s', '-i', patch], cwd=d, check=True)
    p = os.path.join(d, 'pyModelChecking', rel)
    s = open(p).read()
    if old not in s:
        print('OLD TEXT NOT FOUND'); sys.exit(3)
    s = s.replace(old, new, 1)
    compile(s, p, 'exec')
    open(p, 'w').write(s)
    for prop in props.split(','):
        r = subprocess.run(['/venv/bin/python', '/verif/check.py', prop, '--repo', d,
                            '--no-evidence'], capture_output=True, text=True)
        lines = [l for l in r.stdout.splitlines() if l.startswith(('FINDING', 'VIOLATION', 'INCONCL', 'ANALYSIS', 'KNOWN'))]
        print('%s rc=%d' % (prop, r.returncode))
        lines = [l for l in lines if not l.startswith('KNOWN')] + ['(%d KNOWN)' % len([l for l in lines if l.startswith('KNOWN')])]
        for l in lines[:6]:
            print('   ', l[:300])
        if r.returncode == 2: print(r.stdout[-600:], r.stderr[-600:])
finally:
    shutil.rmtree(d)
